"""Tool and thread jobs (Miri, ASan, valgrind, TSan, MT rounds) that complement the native
single-threaded drivers. Filled per property; see DESIGN.md section 3.4."""
import subprocess


def variants_needed(pid, tier):
    return []


def jobs(pid, tier, seed, bins, Job, mix, miri_env):
    return []


def post(job, pid):
    """Turn tool output into violations / notes on the job object."""
    return


def details(jobs):
    return {}


def distinct_extra(jobs):
    return 0


def floor(pid, tier):
    return 50 if tier == "quick" else 500


_RULES = {}


def rule_text(pid, bins):
    if pid not in _RULES:
        r = subprocess.run([bins["debug"], "rule", "--prop", pid[1:]], stdout=subprocess.PIPE, text=True)
        _RULES[pid] = r.stdout.strip()
    return _RULES[pid]
