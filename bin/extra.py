"""Tool and thread jobs (native MT rounds, Miri, ASan/LSan, valgrind, TSan) that complement the
native single-threaded drivers. See DESIGN.md section 3.4 for what each tool decides."""
import os
import re
import subprocess

VERIF = os.path.dirname(os.path.dirname(os.path.abspath(__file__)))
HARNESS = os.path.join(VERIF, "harness")

# which properties get which extra job families
MT_PROPS = {"C01": 1, "C02": 2, "C03": 3, "C05": 5, "C06": 6, "C08": 8, "C11": 11, "C12": 12, "C14": 14}
MIRI_MT_PROPS = {"C01", "C03"}
MIRI_ST_PROPS = {"C02", "C03", "C04", "C05", "C06", "C07", "C08", "C11"}
ASAN_PROPS = {"C03", "C06", "C07"}
VALGRIND_PROPS = {"C03", "C06", "C18"}
TSAN_PROPS = {"C01", "C03"}

# subjects a tool job of a property is restricted to, so that a report can be attributed to it
ST_KINDS = {
    "C03": ["FuturesUnorderedBounded", "FuturesUnordered", "FuturesOrdered", "MergeBounded", "MergeUnbounded"],
    "C07": ["join_all", "try_join_all"],
    "C04": ["FuturesOrderedBounded", "FuturesOrdered", "buffered_ordered", "join_all"],
    "C11": ["MergeBounded", "MergeUnbounded"],
}


def variants_needed(pid, tier):
    v = []
    if pid in MIRI_MT_PROPS or pid in MIRI_ST_PROPS:
        v.append("miri")
    if pid in ASAN_PROPS:
        v.append("asan")
    if tier == "thorough" and pid in TSAN_PROPS:
        v.append("tsan")
    return v


def jobs(pid, tier, seed, bins, Job, mix, miri_env):
    quick = tier == "quick"
    n = int(pid[1:])
    out = []
    if pid in MT_PROPS:
        reps = (8 if pid in ("C12", "C14") else 3) if quick else 8
        for i in range(reps):
            variant = "release" if i % 2 else "debug"
            fp = [0, 20, 60][i % 3] if not quick else [0, 30, 0][i % 3]
            rounds = (6000 if pid in ("C12", "C14") else 2500) if quick else 120_000
            argv = [bins[variant], "mt", "--prop", str(n), "--seed", str(mix(seed, pid, "mt", i)), "--rounds", str(rounds), "--failpoints", str(fp), "--budget-ms", str((40_000 if pid in ("C12", "C14") else 25_000) if quick else 600_000)]
            out.append(Job(f"mt/{variant}/fp{fp}/{i}", argv, timeout=200 if quick else 1500, tool="mt-native"))
    if pid == "C01":
        # hardware store-to-load reordering: tight loop with uninstrumented children, release build
        for i in range(2 if quick else 6):
            argv = [bins["release"], "pingpong", "--seed", str(mix(seed, pid, "pingpong", i) % 1_000_000_007), "--rounds", str(6_000_000 if quick else 400_000_000), "--runs", str(8 if quick else 64), "--budget-ms", str(15_000 if quick else 300_000)]
            out.append(Job(f"pingpong/{i}", argv, timeout=200 if quick else 900, tool="mt-native"))
    if pid in MIRI_MT_PROPS:
        reps = 12 if quick else 32
        for i in range(reps):
            s = mix(seed, pid, "miri-mt", i) % 1_000_000
            flags = f"-Zmiri-seed={s} -Zmiri-preemption-rate={[0.05, 0.1, 0.2, 0.3][i % 4]} -Zmiri-compare-exchange-weak-failure-rate=0.2 -Zmiri-address-reuse-cross-thread-rate=0.3"
            if not quick and i % 6 == 5:
                flags += " -Zmiri-tree-borrows"
            rounds = 8 if quick else 40
            argv = ["cargo", "+nightly", "miri", "run", "--offline", "--", "mt", "--small", "--no-probes", "--prop", str(n), "--rounds", str(rounds), "--seed", str(s)]
            if i % 2:
                # failpoints in their yield-only form: no locks, no memory-ordering effect in Miri's model
                argv += ["--failpoints", "100"]
            out.append(Job(f"miri-mt/{i}", argv, env=miri_env(flags), timeout=300 if quick else 3000, tool="miri"))
    if pid in MIRI_ST_PROPS:
        reps = (6 if pid in MIRI_MT_PROPS else 12) if quick else 24
        kinds = ST_KINDS.get(pid)
        for i in range(reps):
            s = mix(seed, pid, "miri-st", i) % 1_000_000
            flags = f"-Zmiri-seed={s}"
            if pid == "C07":
                flags += " -Zmiri-ignore-leaks"
            if not quick and i % 6 == 5:
                flags += " -Zmiri-tree-borrows"
            hist = 14 if quick else 100
            argv = ["cargo", "+nightly", "miri", "run", "--offline", "--", "run", "--prop", str(n), "--small", "--histories", str(hist), "--max-ops", "24", "--seed", str(s), "--budget-ms", str(60_000 if quick else 900_000), "--stall-s", "150"]
            if kinds:
                argv += ["--kind", kinds[i % len(kinds)]]
            if pid == "C06":
                argv.append("--no-panics")  # keep Miri's leak check meaningful
            out.append(Job(f"miri-st/{i}", argv, env=miri_env(flags), timeout=300 if quick else 3000, tool="miri"))
    if pid in ASAN_PROPS:
        # (C07 lets children panic; a destructor that unwinds may legitimately leak what is left)
        leaks = 0 if pid == "C07" else 1
        env = dict(os.environ, ASAN_OPTIONS=f"detect_leaks={leaks}:halt_on_error=1:abort_on_error=0:exitcode=99:detect_stack_use_after_return=0", LSAN_OPTIONS="exitcode=98")
        reps = 3 if quick else 8
        kinds = ST_KINDS.get(pid)
        for i in range(reps):
            if pid == "C07":
                continue
            argv = [bins["asan"], "mt", "--no-probes", "--failpoints", str([40, 0, 15][i % 3]), "--prop", str(n), "--seed", str(mix(seed, pid, "asan-mt", i)), "--rounds", str(2500 if quick else 60_000), "--budget-ms", str(20_000 if quick else 500_000)]
            out.append(Job(f"asan-mt/{i}", argv, env=env, timeout=300 if quick else 1500, tool="asan"))
        for i in range(reps):
            argv = [bins["asan"], "run", "--prop", str(n), "--seed", str(mix(seed, pid, "asan-st", i)), "--histories", str(8000 if quick else 200_000), "--budget-ms", str(25_000 if quick else 500_000), "--no-poison"]
            if kinds:
                argv += ["--kind", kinds[i % len(kinds)]]
            if pid == "C06":
                argv.append("--no-panics")  # keep LeakSanitizer meaningful
            out.append(Job(f"asan-st/{i}", argv, env=env, timeout=300 if quick else 1500, tool="asan"))
    if not quick and pid in VALGRIND_PROPS:
        for i in range(2):
            argv = ["valgrind", "--error-exitcode=97", "--leak-check=full", "--errors-for-leak-kinds=definite", "--show-leak-kinds=definite", "-q", bins["release"], "run", "--prop", str(n), "--seed", str(mix(seed, pid, "vg", i)), "--histories", "20000", "--no-poison", "--no-panics", "--budget-ms", "400000"]
            out.append(Job(f"valgrind-st/{i}", argv, timeout=1500, tool="valgrind"))
        argv = ["valgrind", "--error-exitcode=97", "--leak-check=full", "--errors-for-leak-kinds=definite", "--show-leak-kinds=definite", "-q", bins["release"], "mt", "--no-probes", "--prop", str(n), "--seed", str(mix(seed, pid, "vg-mt")), "--rounds", "3000", "--budget-ms", "400000"]
        out.append(Job("valgrind-mt/0", argv, timeout=1500, tool="valgrind"))
    if not quick and pid in TSAN_PROPS:
        env = dict(os.environ, TSAN_OPTIONS=f"suppressions={os.path.join(VERIF, 'tsan.supp')}:halt_on_error=0:exitcode=66:report_signal_unsafe=0")
        for i in range(4):
            argv = [bins["tsan"], "mt", "--no-probes", "--prop", str(n), "--seed", str(mix(seed, pid, "tsan", i)), "--rounds", "20000", "--budget-ms", "240000"]
            out.append(Job(f"tsan-mt/{i}", argv, env=env, timeout=900, tool="tsan"))
    return out


# ----------------------------------------------------------------------------- report parsing

def classify(text, armed):
    """Attribute a tool report to a property. The *kind* of report is read from its headline only
    (stack frames mention MaybeUninit, dealloc, ... in perfectly innocent positions); the frames
    are used only to tell a leaked waker block from a leaked output."""
    head = text.strip().splitlines()[0].lower() if text.strip() else ""
    # Miri puts the headline after "error: ", sanitizers after "ERROR: "
    first = " ".join(text.lower().splitlines()[:3])
    t = text.lower()
    if "leak" in head or "leaked" in first:
        return "C03" if ("wakerlist" in t or "waker_list" in t) else "C06"
    if "uninitialized" in first or "uninit" in head:
        return "C07"
    if any(k in first for k in ("data race", "dangling", "use-after-free", "has been freed", "out-of-bounds", "double-free", "attempting double", "deallocat")):
        return "C03" if armed in ("C01", "C03", "C02", "C05") else armed
    return armed


def post(job, pid):
    job.tool_violations = []
    err = job.err or ""
    if job.tool == "miri":
        m = re.search(r"error: (Undefined Behavior|memory leaked|unsupported operation|the evaluated program (leaked|deadlocked|aborted))[^\n]*", err)
        if m:
            if "unsupported operation" in m.group(0):
                job.note = "miri: " + m.group(0)[:200]
                job.no_summary_ok = True
                return
            start = max(0, m.start() - 200)
            excerpt = err[start:m.start() + 2500]
            prop = classify(err[m.start():m.start() + 2500], pid)
            job.tool_violations.append({"property": prop, "rule": "miri:" + re.sub(r"alloc\d+|0x[0-9a-f]+", "_", m.group(0))[:160], "subject": job.label.split("/")[0], "detail": excerpt, "tool": "miri", "label": job.label, "argv": job.argv, "miriflags": (job.env or {}).get("MIRIFLAGS")})
        elif job.summary is None and job.rc not in (0, "timeout", "terminated"):
            job.note = f"miri exited {job.rc} without report: " + err[-300:]
    elif job.tool == "asan":
        m = re.search(r"ERROR: (AddressSanitizer|LeakSanitizer)[^\n]*", err)
        if m:
            excerpt = err[m.start():m.start() + 3000]
            prop = classify(excerpt, pid)
            first_frame = re.search(r"#\d+ 0x[0-9a-f]+ in (futures_buffered[^\s]*)", excerpt)
            job.tool_violations.append({"property": prop, "rule": "asan:" + re.sub(r"0x[0-9a-f]+", "_", m.group(0))[:120] + (" @" + first_frame.group(1) if first_frame else ""), "subject": job.label.split("/")[0], "detail": excerpt, "tool": "asan", "label": job.label, "argv": job.argv})
    elif job.tool == "valgrind":
        job.no_summary_ok = False
        if job.rc == 97 or "definitely lost" in err or "Invalid " in err:
            m = re.search(r"(Invalid (read|write|free)[^\n]*|[\d,]+ bytes in [\d,]+ blocks are definitely lost[^\n]*)", err)
            if m:
                excerpt = err[m.start():m.start() + 2500]
                job.tool_violations.append({"property": classify(excerpt, pid), "rule": "valgrind:" + re.sub(r"[\d,]+ bytes in [\d,]+ blocks", "N bytes", m.group(0))[:100], "subject": job.label.split("/")[0], "detail": excerpt, "tool": "valgrind", "label": job.label, "argv": job.argv})
    elif job.tool == "tsan":
        reports = re.findall(r"WARNING: ThreadSanitizer: ([^\n]*)", err)
        if reports:
            m = re.search(r"WARNING: ThreadSanitizer:", err)
            excerpt = err[m.start():m.start() + 3000]
            job.tool_violations.append({"property": "C03" if pid == "C03" else pid, "rule": "tsan:" + reports[0][:100], "subject": "mt", "detail": excerpt, "tool": "tsan", "label": job.label, "argv": job.argv})


def details(jobs):
    d = {}
    for j in jobs:
        if j.tool == "native":
            continue
        t = d.setdefault(j.tool, {"jobs": [], "executions": 0, "observed": {}})
        s = j.summary or {}
        t["executions"] += s.get("histories", 0)
        for k, v in s.get("observed", {}).items():
            t["observed"][k] = t["observed"].get(k, 0) + v
        t["jobs"].append({"label": j.label, "rc": j.rc, "wall_s": round(j.wall, 1), "executions": s.get("histories", 0), "flags": (j.env or {}).get("MIRIFLAGS", "") if j.tool == "miri" else ""})
    for t in d.values():
        t["jobs"] = t["jobs"][:6] + ([{"more": len(t["jobs"]) - 6}] if len(t["jobs"]) > 6 else [])
    return d


def distinct_extra(jobs):
    # threaded rounds report distinct interleaving signatures themselves
    return sum((j.summary or {}).get("distinct_nontrivial", 0) for j in jobs if j.tool != "native" and (j.summary or {}).get("mode") == "mt")


def floor(pid, tier):
    return 50 if tier == "quick" else 500


_RULES = {}


def rule_text(pid, bins):
    if pid not in _RULES:
        r = subprocess.run([bins["debug"], "rule", "--prop", pid[1:]], stdout=subprocess.PIPE, text=True)
        _RULES[pid] = r.stdout.strip()
    return _RULES[pid]
