mod alloc;
mod kids;
mod prng;
mod sim;
mod subject;
mod world;

#[global_allocator]
static GLOBAL: alloc::Counting = alloc::Counting;

fn arg<T: std::str::FromStr>(args: &[String], name: &str, default: T) -> T {
    args.iter().position(|a| a == name).and_then(|i| args.get(i + 1)).and_then(|v| v.parse().ok()).unwrap_or(default)
}
fn arg_s(args: &[String], name: &str) -> Option<String> {
    args.iter().position(|a| a == name).and_then(|i| args.get(i + 1)).cloned()
}

fn main() {
    let args: Vec<String> = std::env::args().collect();
    std::panic::set_hook(Box::new(|_| {}));
    futures_buffered::verif::set_probe(Some(world::st_probe));
    let cmd = args.get(1).map(|s| s.as_str()).unwrap_or("");
    match cmd {
        "sim" => {
            let p = sim::Params {
                prop: arg(&args, "--prop", 2u8),
                seed: arg(&args, "--seed", 1u64),
                max_ops: arg(&args, "--max-ops", 120usize),
                small: args.iter().any(|a| a == "--small"),
                trace: args.iter().any(|a| a == "--trace"),
                kind: arg_s(&args, "--kind").and_then(|s| subject::Kind::from_name(&s)),
                scenario: None,
            };
            let n: u64 = arg(&args, "--histories", 1000u64);
            let first: u64 = arg(&args, "--first", 0u64);
            let mut viol = 0;
            let show: usize = arg(&args, "--show", 3usize);
            let mut by_rule: std::collections::BTreeMap<String, (u64, u64)> = Default::default();
            for i in first..first + n {
                let r = sim::run_history(&p, i);
                if !r.violations.is_empty() {
                    viol += 1;
                    let v0 = &r.violations[0];
                    let e = by_rule.entry(format!("{} {} {}", v0.prop, v0.rule, r.kind.name())).or_insert((0, i));
                    e.0 += 1;
                    if viol <= show {
                        println!("hist {i} {} ops {}", r.desc, r.ops);
                        for v in &r.violations {
                            println!("  VIOL {} {} {}", v.prop, v.rule, v.detail);
                        }
                        if p.trace {
                            for l in &r.tail {
                                println!("    {l}");
                            }
                        }
                    }
                }
            }
            for (k, (c, first)) in &by_rule {
                println!("  {c:6} x {k}   (first hist {first})");
            }
            println!("histories {n} with violations {viol}");
        }
        _ => eprintln!("usage: fbv sim ..."),
    }
}
