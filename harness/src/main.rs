mod alloc;
mod json;
mod kids;
mod mt;
mod prng;
mod scen;
mod sim;
mod subject;
mod world;

use json::{arr, esc, Obj};
use std::collections::{BTreeMap, HashSet};
use std::io::Write;

#[global_allocator]
static GLOBAL: alloc::Counting = alloc::Counting;

fn arg<T: std::str::FromStr>(args: &[String], name: &str, default: T) -> T {
    args.iter().position(|a| a == name).and_then(|i| args.get(i + 1)).and_then(|v| v.parse().ok()).unwrap_or(default)
}
fn arg_s(args: &[String], name: &str) -> Option<String> {
    args.iter().position(|a| a == name).and_then(|i| args.get(i + 1)).cloned()
}
fn flag(args: &[String], name: &str) -> bool {
    args.iter().any(|a| a == name)
}

fn params(args: &[String]) -> sim::Params {
    sim::Params {
        prop: arg(args, "--prop", 2u8),
        seed: arg(args, "--seed", 1u64),
        max_ops: arg(args, "--max-ops", 120usize),
        small: flag(args, "--small"),
        trace: flag(args, "--trace"),
        kind: arg_s(args, "--kind").and_then(|s| subject::Kind::from_name(&s)),
        scenario: arg_s(args, "--scen"),
        cut: arg_s(args, "--cut").and_then(|s| s.parse().ok()),
        no_poison: flag(args, "--no-poison"),
        suppress_refused: flag(args, "--suppress-refused"),
        no_panics: flag(args, "--no-panics"),
    }
}

fn one(p: &sim::Params, i: u64) -> sim::HistResult {
    match &p.scenario {
        Some(s) => scen::run_scenario(p, s, i),
        None => sim::run_history(p, i),
    }
}

fn stats_json(tot: &BTreeMap<&'static str, u64>) -> String {
    let mut o = Obj::new();
    for (k, v) in tot {
        o = o.num(k, v);
    }
    o.done()
}

fn add_stats(tot: &mut BTreeMap<&'static str, u64>, w: &world::World, f: &sim::Flags) {
    let s = &w.stats;
    let mut add = |k: &'static str, v: u64| *tot.entry(k).or_insert(0) += v;
    add("collection_polls", s.polls.get());
    add("pending_returns", s.pendings.get());
    add("items_yielded", s.items.get());
    add("child_polls", s.child_polls.get());
    add("pushes", s.pushes.get());
    add("refused_pushes", s.refused.get());
    add("wakes_of_live_children", s.wakes_live.get());
    add("wakes_of_finished_children", s.wakes_stale.get());
    add("redundant_wakes", s.wakes_redundant.get());
    add("wakes_during_a_poll", s.wakes_in_poll.get());
    add("waker_clones", s.waker_clones.get());
    add("waker_drops", s.waker_drops.get());
    add("task_waker_invocations", s.task_wakes.get());
    add("task_waker_switches", s.task_switches.get());
    add("relocations", s.relocations.get());
    add("slot_reuses", s.slot_reuse.get());
    add("blocks_allocated", s.blocks_alloc.get());
    add("blocks_released", s.blocks_release.get());
    add("waker_vtable_calls", s.vtable_calls.get());
    add("waker_vtable_calls_after_collection_drop", s.vtable_orphan.get());
    add("upstream_polls", s.up_polls.get());
    add("quiet_phases", s.quiet_phases.get());
    add("point_after_register", s.points[0].get());
    add("point_budget_exhausted", s.points[5].get());
    add("point_vacant_slot_skipped", s.points[6].get());
    add("point_wake_coalesced", s.points[7].get());
    add("point_inconsistent_queue", s.points[4].get());
    add("rebase_crossed", f.rebase_crossed as u64);
    add("push_front_after_poll", f.push_front_after_poll as u64);
    add("groups_created", f.groups_created as u64);
    add("groups_removed", f.groups_removed as u64);
    add("stale_wakes_after_slot_reuse", f.stale_wakes_after_reuse as u64);
    add("out_of_order_completions", f.out_of_order_completion as u64);
    add("cancelled_with_work_in_flight", f.cancelled_nontrivial as u64);
    add("relocations_between_polls", f.relocations_between_polls as u64);
    add("children_processed", f.processed);
    let mx = |tot: &mut BTreeMap<&'static str, u64>, k: &'static str, v: u64| {
        let e = tot.entry(k).or_insert(0);
        if v > *e {
            *e = v;
        }
    };
    mx(tot, "max_child_polls_in_one_call", s.max_child_polls_in_call.get());
    mx(tot, "max_wake_to_poll_latency_in_polls", s.max_latency.get());
    mx(tot, "max_backlog_pulled_not_yielded", w.max_backlog.get());
}

fn viol_json(p: &sim::Params, i: u64, r: &sim::HistResult, v: &world::Violation) -> String {
    Obj::new()
        .str("property", v.prop)
        .str("rule", v.rule)
        .str("subject", r.kind.name())
        .num("cap", r.cap)
        .str("detail", &v.detail)
        .str("desc", &r.desc)
        .num("hist", i)
        .num("seed", p.seed)
        .num("prop_profile", p.prop)
        .str("scenario", p.scenario.as_deref().unwrap_or(""))
        .bool("small", p.small)
        .num("max_ops", p.max_ops)
        .num("ops", r.ops)
        .raw("tail", json::str_arr(r.tail().iter().rev().take(40).collect::<Vec<_>>().into_iter().rev()))
        .done()
}

/// shrink by prefix: smallest cut of the random phase that still shows (prop, rule)
fn shrink(p: &sim::Params, i: u64, prop: &str, rule: &str, ops: usize) -> Option<usize> {
    if p.scenario.is_some() || ops == 0 {
        return None;
    }
    let shows = |cut: usize| {
        let mut q = p.clone();
        q.cut = Some(cut);
        let r = sim::run_history(&q, i);
        r.violations.iter().any(|v| v.prop == prop && v.rule == rule)
    };
    let (mut lo, mut hi) = (0usize, ops);
    if !shows(hi) {
        return None;
    }
    while lo < hi {
        let mid = (lo + hi) / 2;
        if shows(mid) {
            hi = mid;
        } else {
            lo = mid + 1;
        }
    }
    Some(hi)
}

fn main() {
    let args: Vec<String> = std::env::args().collect();
    std::panic::set_hook(Box::new(|_| {}));
    futures_buffered::verif::set_probe(Some(world::st_probe));
    let cmd = args.get(1).map(|s| s.as_str()).unwrap_or("");
    match cmd {
        // human-readable exploration
        "sim" => {
            let p = params(&args);
            let n: u64 = arg(&args, "--histories", 1000u64);
            let first: u64 = arg(&args, "--first", 0u64);
            let mut viol = 0;
            let show: usize = arg(&args, "--show", 3usize);
            let mut by_rule: BTreeMap<String, (u64, u64)> = Default::default();
            let mut nontriv = 0u64;
            for i in first..first + n {
                let r = one(&p, i);
                if sim::nontrivial(p.prop, &r) {
                    nontriv += 1;
                }
                if p.trace && n == 1 {
                    println!("hist {i} {} ops {}", r.desc, r.ops);
                    for l in &r.tail() {
                        println!("    {l}");
                    }
                    println!("flags {:?}", r.flags);
                }
                if !r.violations.is_empty() {
                    viol += 1;
                    let v0 = &r.violations[0];
                    let e = by_rule.entry(format!("{} {} {}", v0.prop, v0.rule, r.kind.name())).or_insert((0, i));
                    e.0 += 1;
                    if viol <= show {
                        println!("hist {i} {} ops {}", r.desc, r.ops);
                        for v in &r.violations {
                            println!("  VIOL {} {} {}", v.prop, v.rule, v.detail);
                        }
                    }
                }
            }
            for (k, (c, first)) in &by_rule {
                println!("  {c:6} x {k}   (first hist {first})");
            }
            println!("histories {n} nontrivial {nontriv} with violations {viol}");
        }
        // machine-readable worker: one JSON summary line on stdout
        "run" => {
            let p = params(&args);
            let n: u64 = arg(&args, "--histories", 1000u64);
            let first: u64 = arg(&args, "--first", 0u64);
            let budget_ms: u64 = arg(&args, "--budget-ms", 600_000u64);
            let hashes_out = arg_s(&args, "--hashes");
            let t0 = std::time::Instant::now();
            world::EAGER.store(true, std::sync::atomic::Ordering::Relaxed);
            // hang watchdog: a single history normally takes well under a millisecond; if the
            // beacon does not move for `stall` seconds while control is inside a crate call, the
            // crate is stuck on a legal history. Report and leave.
            let stall: u64 = arg(&args, "--stall-s", if cfg!(miri) { 600 } else { 150 });
            let label = format!("prop {} seed {} scen {:?} small {}", p.prop, p.seed, p.scenario, p.small);
            // (not under Miri: a thread still running at exit is an error there, and would keep
            // Miri from doing its leak check; Miri jobs have the orchestrator's timeout instead)
            let spawn_watchdog = !cfg!(miri);
            if spawn_watchdog {
                let _ = stall;
            }
            let _watchdog = spawn_watchdog.then(|| std::thread::spawn(move || {
                use std::io::Write;
                let mut last = u64::MAX;
                let mut since = std::time::Instant::now();
                loop {
                    std::thread::sleep(std::time::Duration::from_millis(500));
                    let b = world::BEACON.load(std::sync::atomic::Ordering::Relaxed);
                    if b != last {
                        last = b;
                        since = std::time::Instant::now();
                    } else if since.elapsed().as_secs() >= stall {
                        // phase "harness": no crate call is open; then the driver itself loops,
                        // which the orchestrator reports as inconclusive, not as a violation
                        let phase = ["harness", "poll", "push", "drop", "waker"][((b & 0xff) as usize).min(4)];
                        let _ = writeln!(std::io::stdout(), "HANG {{\"hist\":{},\"phase\":\"{}\",\"stall_s\":{},\"worker\":{}}}", b >> 8, phase, stall, json::esc(&label));
                        let _ = std::io::stdout().flush();
                        std::process::exit(3);
                    }
                }
            }));
            let mut hashes: HashSet<u64> = HashSet::new();
            let mut nontriv = 0u64;
            let mut done = 0u64;
            let mut ops = 0u64;
            let mut viols: Vec<String> = Vec::new();
            let mut viol_count: BTreeMap<String, u64> = BTreeMap::new();
            let mut inconclusive: BTreeMap<String, u64> = BTreeMap::new();
            let mut by_kind: BTreeMap<&'static str, u64> = BTreeMap::new();
            let mut caps: HashSet<usize> = HashSet::new();
            let mut tot: BTreeMap<&'static str, u64> = BTreeMap::new();
            let mut samples: Vec<String> = Vec::new();
            let mut layouts: HashSet<u64> = HashSet::new();
            let mut watchdog = false;
            for i in first..first + n {
                if t0.elapsed().as_millis() as u64 > budget_ms {
                    watchdog = true;
                    break;
                }
                world::BEACON.store(i << 8, std::sync::atomic::Ordering::Relaxed);
                let r = one(&p, i);
                done += 1;
                ops += r.ops as u64;
                *by_kind.entry(r.kind.name()).or_insert(0) += 1;
                caps.insert(r.cap);
                add_stats(&mut tot, &r.stats, &r.flags);
                let _ = &mut layouts;
                if let Some(m) = &r.inconclusive {
                    *inconclusive.entry(m.clone()).or_insert(0) += 1;
                }
                let nt = sim::nontrivial(p.prop, &r);
                if nt {
                    nontriv += 1;
                    hashes.insert(r.hash);
                    if samples.len() < 3 && (i - first) % 7 == 0 {
                        samples.push(
                            Obj::new()
                                .str("subject", &r.desc)
                                .num("hist", i)
                                .num("ops", r.ops)
                                .str("replay", &format!("fbv sim --prop {} --seed {} --first {} --histories 1 --trace{}{}", p.prop, p.seed, i, if p.small { " --small" } else { "" }, p.scenario.as_ref().map(|s| format!(" --scen {s}")).unwrap_or_default()))
                                .raw("last_events", json::str_arr(r.tail().iter().rev().take(24).collect::<Vec<_>>().into_iter().rev()))
                                .done(),
                        );
                    }
                }
                for v in &r.violations {
                    *viol_count.entry(format!("{}/{}/{}", v.prop, v.rule, r.kind.name())).or_insert(0) += 1;
                }
                // report the violation of the property this worker is run for, if there is one
                let tag = format!("C{:02}", p.prop);
                if let Some(v) = r.violations.iter().find(|v| v.prop == tag).or(r.violations.first()) {
                    if viols.len() < 12 || (v.prop == tag && viols.len() < 24) {
                        let cut = shrink(&p, i, v.prop, v.rule, r.ops);
                        let mut j = viol_json(&p, i, &r, v);
                        if let Some(c) = cut {
                            j.pop();
                            j.push_str(&format!(",\"shrunk_cut\":{c}}}"));
                        }
                        viols.push(j);
                    }
                }
            }
            if let Some(path) = hashes_out {
                if let Ok(mut f) = std::fs::File::create(path) {
                    for h in &hashes {
                        let _ = writeln!(f, "{h:016x}");
                    }
                }
            }
            let mut caps: Vec<usize> = caps.into_iter().collect();
            caps.sort();
            let out = Obj::new()
                .str("mode", p.scenario.as_deref().unwrap_or("random"))
                .num("prop", p.prop)
                .num("seed", p.seed)
                .bool("small", p.small)
                .num("histories", done)
                .num("ops", ops)
                .num("nontrivial", nontriv)
                .num("distinct_nontrivial", hashes.len())
                .bool("watchdog", watchdog)
                .raw("violations", arr(viols))
                .raw("violation_counts", {
                    let mut o = Obj::new();
                    for (k, v) in &viol_count {
                        o = o.num(k, v);
                    }
                    o.done()
                })
                .raw("inconclusive", {
                    let mut o = Obj::new();
                    for (k, v) in &inconclusive {
                        o = o.num(k, v);
                    }
                    o.done()
                })
                .raw("subjects", {
                    let mut o = Obj::new();
                    for (k, v) in &by_kind {
                        o = o.num(k, v);
                    }
                    o.done()
                })
                .raw("capacities", arr(caps.iter().map(|c| c.to_string())))
                .raw("observed", stats_json(&tot))
                .raw("samples", arr(samples))
                .num("wall_ms", t0.elapsed().as_millis())
                .done();
            println!("{out}");
            let _ = esc;
        }
        "mt" => {
            let seed: u64 = arg(&args, "--seed", 1u64);
            let rounds: u64 = arg(&args, "--rounds", 1000u64);
            let budget_ms: u64 = arg(&args, "--budget-ms", 600_000u64);
            let monitor = !flag(&args, "--no-probes");
            let fp: u32 = arg(&args, "--failpoints", 0u32);
            let small = flag(&args, "--small");
            let kind_arg = arg_s(&args, "--kind");
            let prop: u8 = arg(&args, "--prop", 1u8);
            if monitor {
                futures_buffered::verif::set_probe(Some(mt::mt_probe));
                mt::set_failpoints(fp);
            } else if fp > 0 {
                // delays only: no monitor state, no locks (sanitizer / Miri runs)
                futures_buffered::verif::set_probe(Some(mt::fp_only_probe));
                mt::set_failpoints(fp);
            } else {
                futures_buffered::verif::set_probe(None);
            }
            let t0 = std::time::Instant::now();
            // stall watchdog (not under Miri, see `run`): no progress for `stall` seconds while a
            // crate call is in flight means the crate is stuck
            let stall: u64 = arg(&args, "--stall-s", 90);
            if !cfg!(miri) {
                std::thread::spawn(move || {
                    use std::io::Write;
                    use std::sync::atomic::Ordering::Relaxed;
                    let mut last = u64::MAX;
                    let mut since = std::time::Instant::now();
                    loop {
                        std::thread::sleep(std::time::Duration::from_millis(500));
                        let p = mt::PROGRESS.load(Relaxed);
                        if p != last {
                            last = p;
                            since = std::time::Instant::now();
                        } else if since.elapsed().as_secs() >= stall {
                            let inflight = [mt::INFLIGHT[0].load(Relaxed), mt::INFLIGHT[1].load(Relaxed), mt::INFLIGHT[2].load(Relaxed)];
                            let phase = if inflight[1] > 0 { "drop" } else if inflight[0] > 0 { "poll" } else if inflight[2] > 0 { "waker" } else { "harness" };
                            let _ = writeln!(std::io::stdout(), "HANG {{\"hist\":{},\"phase\":\"{}\",\"stall_s\":{},\"worker\":\"mt seed {}\"}}", p, phase, stall, seed);
                            let _ = std::io::stdout().flush();
                            std::process::exit(3);
                        }
                    }
                });
            }
            let mut r = prng::Rng::new(seed);
            let mut sigs: HashSet<u64> = HashSet::new();
            let mut viols: Vec<String> = Vec::new();
            let mut viol_count: BTreeMap<String, u64> = BTreeMap::new();
            let mut by_kind: BTreeMap<String, u64> = BTreeMap::new();
            let mut tot: BTreeMap<&'static str, u64> = BTreeMap::new();
            let mut nontriv = 0u64;
            let mut done = 0u64;
            let mut inconclusive = 0u64;
            let mut watchdog = false;
            for i in 0..rounds {
                if t0.elapsed().as_millis() as u64 > budget_ms {
                    watchdog = true;
                    break;
                }
                let kind = kind_arg.clone().unwrap_or_else(|| r.pick(&mt::MT_KINDS).to_string());
                let cfg = mt::RoundCfg {
                    n: if small { r.range(1, 5) } else { *r.pick(&[1usize, 2, 3, 4, 8, 16, 33, 64, 70]) },
                    threads: if small { r.range(1, 2) } else { r.range(1, 8) },
                    calls: if small { r.range(4, 20) } else { *r.pick(&[2usize, 5, 10, 20, 40, 80, 200, 400]) },
                    track_blocks: monitor,
                    migrate: r.chance(1, 4),
                    cancel_after: if r.chance(1, 4) { Some(r.range(1, 12) as u64) } else { None },
                    raw: r.chance(1, 2),
                    kind,
                };
                let rs = prng::splitmix(&mut (seed ^ i.wrapping_mul(0x9E37_79B9_7F4A_7C15)));
                if monitor {
                    mt::blocks_begin();
                }
                let (mut v, st) = mt::round(&cfg, rs);
                if monitor {
                    let (bv, a, rel, vt, byw) = mt::blocks_end();
                    for (rule, d) in bv {
                        v.push(("C03".into(), rule, d));
                    }
                    *tot.entry("blocks_allocated").or_insert(0) += a;
                    *tot.entry("blocks_released").or_insert(0) += rel;
                    *tot.entry("waker_vtable_calls").or_insert(0) += vt;
                    *tot.entry("blocks_released_by_a_waker_thread").or_insert(0) += byw;
                }
                done += 1;
                *by_kind.entry(cfg.kind.clone()).or_insert(0) += 1;
                *tot.entry("collection_polls").or_insert(0) += st.polls;
                *tot.entry("waker_calls_on_other_threads").or_insert(0) += st.waker_calls;
                *tot.entry("waker_calls_overlapping_a_poll").or_insert(0) += st.overlapping_wakes;
                *tot.entry("waker_calls_after_collection_drop").or_insert(0) += st.orphan_calls;
                *tot.entry("spurious_polls").or_insert(0) += st.spurious_polls;
                *tot.entry("task_waker_switches").or_insert(0) += st.task_switches;
                *tot.entry("items_yielded").or_insert(0) += st.items;
                *tot.entry("rounds_with_consumer_on_another_thread").or_insert(0) += cfg.migrate as u64;
                *tot.entry("rounds_cancelled_while_wakers_running").or_insert(0) += st.cancelled as u64;
                *tot.entry("rounds_with_uninstrumented_children").or_insert(0) += cfg.raw as u64;
                let nt = match prop {
                    3 => st.orphan_calls > 0,
                    _ => st.overlapping_wakes > 0,
                };
                if nt {
                    nontriv += 1;
                    sigs.insert(st.sig ^ (cfg.n as u64) << 48);
                }
                for (p_, rule, d) in &v {
                    if p_ == "INCONCLUSIVE" {
                        inconclusive += 1;
                        continue;
                    }
                    *viol_count.entry(format!("{p_}/{rule}/{}", cfg.kind)).or_insert(0) += 1;
                    if viols.len() < 12 {
                        viols.push(
                            Obj::new()
                                .str("property", p_)
                                .str("rule", rule)
                                .str("subject", &cfg.kind)
                                .str("detail", d)
                                .num("round", i)
                                .num("seed", seed)
                                .num("n", cfg.n)
                                .num("threads", cfg.threads)
                                .num("calls", cfg.calls)
                                .done(),
                        );
                    }
                }
            }
            let pts = mt::points();
            for (i, name) in ["point_after_register", "point_dequeued_before_clear", "point_enqueued_before_notify", "point_empty_before_pending", "point_inconsistent_queue", "point_budget_exhausted", "point_vacant_slot_skipped", "point_wake_coalesced"].iter().enumerate() {
                tot.insert(name, pts[i]);
            }
            let out = Obj::new()
                .str("mode", "mt")
                .num("prop", prop)
                .num("seed", seed)
                .num("histories", done)
                .num("nontrivial", nontriv)
                .num("distinct_nontrivial", sigs.len())
                .bool("watchdog", watchdog)
                .raw("violations", arr(viols))
                .raw("violation_counts", {
                    let mut o = Obj::new();
                    for (k, v) in &viol_count {
                        o = o.num(k, v);
                    }
                    o.done()
                })
                .raw("inconclusive", Obj::new().num("round stopped by its logical step cap", inconclusive).done())
                .raw("subjects", {
                    let mut o = Obj::new();
                    for (k, v) in &by_kind {
                        o = o.num(k, v);
                    }
                    o.done()
                })
                .raw("observed", stats_json(&tot))
                .num("wall_ms", t0.elapsed().as_millis())
                .done();
            println!("{out}");
        }
        "pingpong" => {
            let seed: u64 = arg(&args, "--seed", 1u64);
            let rounds: u64 = arg(&args, "--rounds", 2_000_000u64);
            let runs: u64 = arg(&args, "--runs", 8u64);
            let budget_ms: u64 = arg(&args, "--budget-ms", 20_000u64);
            futures_buffered::verif::set_probe(None);
            let t0 = std::time::Instant::now();
            let (mut total, mut polls) = (0u64, 0u64);
            let mut viols: Vec<String> = Vec::new();
            for i in 0..runs {
                let left = budget_ms.saturating_sub(t0.elapsed().as_millis() as u64);
                if left == 0 {
                    break;
                }
                let st = mt::pingpong(seed.wrapping_add(i), rounds / runs.max(1), left);
                total += st.rounds;
                polls += st.polls;
                for l in st.lost {
                    if viols.len() < 6 {
                        viols.push(Obj::new().str("property", "C01").str("rule", "lost_wakeup_pingpong").str("subject", "pingpong").str("detail", &l).num("seed", seed.wrapping_add(i)).done());
                    }
                }
            }
            let out = Obj::new()
                .str("mode", "pingpong")
                .num("prop", 1)
                .num("seed", seed)
                .num("histories", total)
                .num("nontrivial", total)
                .num("distinct_nontrivial", 0)
                .bool("watchdog", false)
                .raw("violations", arr(viols.clone()))
                .raw("violation_counts", Obj::new().num("C01/lost_wakeup_pingpong/pingpong", viols.len()).done())
                .raw("inconclusive", Obj::new().done())
                .raw("subjects", Obj::new().num("pingpong", total).done())
                .raw("observed", {
                    let p = mt::points();
                    let _ = p;
                    Obj::new().num("pingpong_rounds", total).num("pingpong_collection_polls", polls).done()
                })
                .num("wall_ms", t0.elapsed().as_millis())
                .done();
            println!("{out}");
        }
        "rule" => println!("{}", sim::rule_text(arg(&args, "--prop", 0u8))),
        "noop" => {}
        _ => eprintln!("usage: fbv sim|run|rule ..."),
    }
}
