//! Directed scenario families: randomised in sizes and positions, but aimed at the states a
//! uniform random walk reaches too rarely (cross-group starvation, budget exhaustion, quiet
//! windows that start with stale queue entries, head-of-line stalls, oscillating populations).

use crate::alloc;
use crate::prng::{fnv, FNV0};
use crate::sim::{finish_result, Hist, HistResult, Last, Params};
use crate::subject::{Ctor, How, Kind};
use crate::world::{KState, SrcStep, UpStep};

pub const SCENARIOS: [&str; 11] = ["starve", "budget", "quiet_stale", "quiet_budget", "oscillate", "head_of_line", "wrap", "big_cap", "cap0_adapters", "exact_burst", "parked_extend"];

fn mix(a: u64, b: u64) -> u64 {
    let mut x = a ^ b.wrapping_mul(0x9E37_79B9_7F4A_7C15);
    crate::prng::splitmix(&mut x)
}

pub fn run_scenario(p: &Params, name: &str, idx: u64) -> HistResult {
    let mut hs = FNV0;
    for b in name.bytes() {
        fnv(&mut hs, b as u64);
    }
    let seed = mix(p.seed ^ hs, idx);
    alloc::set_poison(!p.no_poison);
    match name {
        "starve" => starve(p, seed),
        "budget" => budget(p, seed),
        "quiet_stale" => quiet_stale(p, seed),
        "quiet_budget" => quiet_budget(p, seed),
        "oscillate" => oscillate(p, seed),
        "head_of_line" => head_of_line(p, seed),
        "exact_burst" => exact_burst(p, seed),
        "parked_extend" => parked_extend(p, seed),
        "wrap" => wrap(p, seed),
        "big_cap" => big_cap(p, seed),
        "cap0_adapters" => cap0_adapters(p, seed),
        _ => panic!("unknown scenario {name}"),
    }
}

impl Hist {
    /// poll until the subject answers Pending (or ends); returns the number of polls
    pub fn poll_until_pending(&mut self, max: usize) -> usize {
        let mut n = 0;
        while n < max {
            n += 1;
            let wk = self.last_waker;
            match self.poll(wk) {
                Last::Pending | Last::Done => break,
                _ => {}
            }
            if self.w.has_violation() || self.subj.is_none() {
                break;
            }
        }
        n
    }

    /// poll until every held child has been polled at least once
    pub fn poll_until_all_polled(&mut self, max: usize) {
        for _ in 0..max {
            let all = {
                let ks = self.w.kids.borrow();
                self.held.iter().all(|i| ks[*i as usize].state != KState::Fresh)
            };
            if all || self.w.has_violation() || self.subj.is_none() {
                break;
            }
            let wk = self.last_waker;
            self.poll(wk);
        }
    }

    fn passive_fut(&mut self) -> u32 {
        let id = self.w.new_kid(false);
        let hold = *self.rng.pick(&[1u8, 1, 2, 3]);
        self.w.kids.borrow_mut()[id as usize].hold = hold;
        id
    }

    fn src_with(&mut self, script: Vec<SrcStep>) -> u32 {
        let id = self.w.new_kid(true);
        self.w.kids.borrow_mut()[id as usize].script = script;
        id
    }
}

// ---------------------------------------------------------------------- starve (C13, C01)

fn starve(p: &Params, seed: u64) -> HistResult {
    let mut h = Hist::new(seed, p.trace);
    h.w.armed.set(crate::sim::prop_tag(p.prop));
    let w = h.w.clone();
    let kinds: &[Kind] = if p.small {
        &[Kind::Fu, Kind::Fo, Kind::Fub, Kind::MergeB, Kind::Fu, Kind::Fo]
    } else {
        &[Kind::MergeU, Kind::Fu, Kind::Fo, Kind::Fub, Kind::Fob, Kind::MergeB, Kind::MergeU, Kind::Fu, Kind::ForEach]
    };
    let kind = p.kind.unwrap_or_else(|| *h.rng.pick(kinds));
    let mut refill = false;
    let victim: u32;
    match kind {
        Kind::MergeU => {
            // groups of 32, 64, 128: victim and busy population in different groups
            let n_groups = if p.small { 2 } else { h.rng.range(2, 3) };
            let total: usize = match n_groups {
                2 => 32 + h.rng.range(1, 64),
                _ => 96 + h.rng.range(1, 128),
            };
            h.construct(kind, Ctor::New, 0, 0, None);
            let group_of = |i: usize| if i < 32 { 0 } else if i < 96 { 1 } else { 2 };
            let gb = h.rng.below(n_groups);
            let gv = (gb + 1 + h.rng.below(n_groups - 1)) % n_groups;
            let busy_n = h.rng.range(1, 40);
            let mut busy_left = busy_n;
            let in_gv: Vec<usize> = (0..total).filter(|i| group_of(*i) == gv).collect();
            let vpos = in_gv[h.rng.below(in_gv.len())];
            let mut v = 0;
            for i in 0..total {
                let id = if i == vpos {
                    h.src_with(vec![SrcStep::Gap, SrcStep::Item, SrcStep::End])
                } else if group_of(i) == gb && busy_left > 0 {
                    busy_left -= 1;
                    h.src_with(vec![SrcStep::Gap, SrcStep::Infinite])
                } else {
                    h.src_with(vec![SrcStep::Gap, SrcStep::End])
                };
                if i == vpos {
                    v = id;
                }
                h.push_id(id, How::Back);
            }
            victim = v;
        }
        Kind::Fu | Kind::Fo => {
            // with_capacity(c): groups c, 2c, 4c ...; the last group is refilled after every yield
            let c = h.rng.range(1, 3);
            let n_groups = if p.small { 2 } else { h.rng.range(2, 5) };
            h.construct(kind, Ctor::WithCap, c, 0, None);
            // fill all groups but the last completely with passive children, victim among them
            let mut total = 0;
            let mut g = c;
            for _ in 0..n_groups - 1 {
                total += g;
                g *= 2;
            }
            let vpos = h.rng.below(total);
            let mut v = 0;
            for i in 0..total {
                let id = h.passive_fut();
                if i == vpos {
                    v = id;
                }
                h.push_id(id, How::Back);
            }
            victim = v;
            if h.rng.chance(1, 2) {
                refill = true;
            } else {
                // the newest group holds one to three children that wake themselves on every
                // poll and never finish: it uses up its per-poll budget in every call
                for _ in 0..h.rng.range(1, 3) {
                    let id = h.passive_fut();
                    w.kids.borrow_mut()[id as usize].self_wake = u32::MAX;
                    h.push_id(id, How::Back);
                }
            }
        }
        Kind::ForEach => {
            // unlimited for_each_concurrent keeps its futures in a FuturesUnordered
            let n = h.rng.range(33, 120);
            let mut script = vec![UpStep::Item; n];
            script.push(UpStep::Gap);
            script.push(UpStep::End);
            w.install_upstream(script, 0, 0, 0, 0);
            h.construct(kind, Ctor::New, 0, 0, None);
            h.poll_until_pending(4);
            // children 0..32 are in group 0, the rest in group 1: make the others busy
            let ids = h.held.clone();
            victim = ids[h.rng.below(32)];
            for id in ids.iter().skip(32) {
                w.kids.borrow_mut()[*id as usize].self_wake = u32::MAX;
                w.wake_kid(*id, 0, 0);
            }
        }
        Kind::MergeB => {
            let n = if p.small { h.rng.range(2, 5) } else { *h.rng.pick(&[2usize, 3, 31, 33, 61, 62, 97]) };
            let vpos = h.rng.below(n);
            let mut ids = Vec::new();
            for i in 0..n {
                ids.push(if i == vpos { h.src_with(vec![SrcStep::Gap, SrcStep::Item, SrcStep::End]) } else { h.src_with(vec![SrcStep::Gap, SrcStep::Infinite]) });
            }
            h.kind = kind;
            // construct through from_iter with prepared ids
            let v = ids[vpos];
            construct_with_ids(&mut h, kind, &ids);
            victim = v;
        }
        _ => {
            // bounded collections: busy = forever self-waking futures
            let n = if p.small { h.rng.range(2, 6) } else { *h.rng.pick(&[2usize, 5, 31, 33, 60, 61, 62, 63, 97, 130]) };
            h.construct(kind, Ctor::New, n, 0, None);
            let vpos = h.rng.below(n);
            let mut v = 0;
            for i in 0..n {
                let id = h.passive_fut();
                if i == vpos {
                    v = id;
                } else {
                    w.kids.borrow_mut()[id as usize].self_wake = u32::MAX;
                }
                let how = if kind == Kind::Fob && i != vpos && h.rng.chance(1, 2) { How::Front } else { How::Back };
                h.push_id(id, how);
            }
            victim = v;
        }
    }
    if w.has_violation() || h.subj.is_none() {
        return finish_result(h);
    }
    w.kids.borrow_mut()[victim as usize].victim = true;
    w.streak_limit.set(4096 * (w.groups_bound.get() + 1));
    // everybody gets polled once
    h.poll_until_all_polled(64);
    // switch the busy population on
    if kind.is_merge() {
        let ids = h.held.clone();
        for id in ids {
            let busy = w.kids.borrow()[id as usize].script.contains(&SrcStep::Infinite);
            if busy {
                h.op_complete(id, true);
            }
        }
    }
    let warm = h.rng.range(0, 6);
    let mut fed = 0u64;
    let feed = |h: &mut Hist, fed: &mut u64| {
        if refill {
            // keep exactly one ready child in the last group
            let id = h.w.new_kid(false);
            h.w.kids.borrow_mut()[id as usize].ready = true;
            let how = if h.kind == Kind::Fo { How::Front } else { How::Back };
            h.push_id(id, how);
            *fed += 1;
        }
    };
    feed(&mut h, &mut fed);
    for _ in 0..warm {
        let wk = h.last_waker;
        if h.poll(wk) == Last::Item {
            feed(&mut h, &mut fed);
        }
    }
    if w.has_violation() || h.subj.is_none() {
        return finish_result(h);
    }
    // wake the victim
    let polls_before = w.kids.borrow()[victim as usize].polls;
    h.op_complete(victim, true);
    let bound = w.kids.borrow()[victim as usize].woken_bound.max(8);
    let mut n = 0u64;
    let mut polled = false;
    while n < 4 * bound + 16 {
        n += 1;
        let wk = h.last_waker;
        let r = h.poll(wk);
        if r == Last::Item {
            feed(&mut h, &mut fed);
        }
        if w.has_violation() || h.subj.is_none() {
            break;
        }
        if w.kids.borrow()[victim as usize].polls > polls_before {
            polled = true;
            break;
        }
        if r == Last::Done {
            break;
        }
    }
    h.flags.starve_rounds = n;
    if !polled && !w.has_violation() && h.subj.is_some() {
        w.violation(
            "C13",
            "starved",
            format!("{}: victim kid {victim} was woken and not polled in {n} collection polls (bound {bound}); busy population kept yielding", h.desc),
        );
    }
    if !w.has_violation() {
        h.drain();
    }
    if !w.has_violation() {
        h.finish(false, true);
    }
    finish_result(h)
}

fn construct_with_ids(h: &mut Hist, kind: Kind, ids: &[u32]) {
    // `Hist::construct` creates its own children for from_iter; here the scripts are prepared by
    // the scenario, so build the subject directly
    use crate::subject::make;
    use crate::world::Ctx;
    h.kind = kind;
    h.cap = ids.len();
    h.desc = format!("{}(ctor=from_iter, cap={}, scenario)", kind.name(), ids.len());
    h.flags.ctor_called = true;
    let prev = h.w.ctx.get();
    h.w.ctx.set(Ctx::InOther);
    let s = make(kind, Ctor::FromIter, ids.len(), ids, None);
    h.w.ctx.set(prev);
    h.subj = Some(s);
    for id in ids {
        h.w.accept(*id);
        h.held.push(*id);
        h.order.push_back(*id);
        h.n_accepted += 1;
    }
    h.src_next = vec![0; h.w.kids.borrow().len()];
    h.join_ids = h.held.clone();
    h.alloc_base = alloc::in_crate_allocs();
    h.kids_seen = h.w.kids.borrow().len();
    h.peak = ids.len();
    h.w.model_len.set(ids.len());
    h.w.cap_total.set(ids.len() as u64);
}

// ---------------------------------------------------------------------- budget (C13, C01)

fn budget(p: &Params, seed: u64) -> HistResult {
    let mut h = Hist::new(seed, p.trace);
    h.w.armed.set(crate::sim::prop_tag(p.prop));
    let w = h.w.clone();
    let kind = p.kind.unwrap_or_else(|| *h.rng.pick(&[Kind::Fub, Kind::Fub, Kind::Fu, Kind::Fob, Kind::Fo, Kind::MergeB]));
    // `few`: a handful of children, every busy one poking a stale waker before waking itself, so
    // that dequeued vacant slots and polled children alternate in the ready queue
    let few = !kind.is_merge() && h.rng.chance(1, 4);
    let n = if few {
        h.rng.range(2, 6)
    } else if p.small {
        h.rng.range(62, 70)
    } else {
        *h.rng.pick(&[62usize, 63, 100, 122, 123, 124, 200, 300])
    };
    w.streak_cap.set(if p.small { 300 } else { 5000 });
    match kind {
        Kind::MergeB => {
            let ids: Vec<u32> = (0..n).map(|_| h.src_with(vec![SrcStep::Gap, SrcStep::Gap, SrcStep::End])).collect();
            construct_with_ids(&mut h, kind, &ids);
        }
        Kind::Fu | Kind::Fo => {
            let c = *h.rng.pick(&[0usize, 1, 40]);
            h.construct(kind, if c == 0 { Ctor::New } else { Ctor::WithCap }, c, 0, None);
        }
        _ => {
            h.construct(kind, Ctor::New, n, 0, None);
        }
    }
    // `ready_at`: everybody is queued by its push and pending, except the child at queue
    // position 59..62 / 121..123, which is ready: the output of the child that is polled as the
    // last one within the per-call budget (or the first one beyond it) must not get lost
    let ready_at = if !kind.is_merge() && !few && h.rng.chance(1, 4) { Some(*h.rng.pick(&[59usize, 60, 60, 61, 62, 121, 122, 123]) % n) } else { None };
    if !kind.is_merge() {
        for i in 0..n {
            let id = h.passive_fut();
            if ready_at == Some(i) {
                w.kids.borrow_mut()[id as usize].ready = true;
            }
            h.push_id(id, How::Back);
        }
    }
    w.streak_limit.set(4096 * (w.groups_bound.get() + 1));
    if ready_at.is_some() {
        for _ in 0..6 {
            let wk = h.last_waker;
            let r = h.poll(wk);
            if w.has_violation() || h.subj.is_none() {
                return finish_result(h);
            }
            if r == Last::Pending && !w.task_invoked_since(wk, h.last_start) {
                break;
            }
        }
        if !w.has_violation() {
            h.drain();
        }
        if !w.has_violation() {
            h.finish(h.hash & 1 == 0, true);
        }
        return finish_result(h);
    }
    // variant: a few children finish first (their retained wakers become stale) and the busy
    // ones poke such a stale waker on every poll, before or after waking themselves
    let mut stale: Vec<u32> = Vec::new();
    if !kind.is_merge() && (few || h.rng.chance(1, 2)) {
        h.poll_until_all_polled(n / 30 + 8);
        let all = h.held.clone();
        for id in all.iter().take(3) {
            w.kids.borrow_mut()[*id as usize].hold = 3;
        }
        let n_stale = h.rng.range(1, 3).min(n - 1);
        for id in all.iter().take(n_stale) {
            h.op_complete(*id, true);
            stale.push(*id);
        }
        for _ in 0..8 {
            let wk = h.last_waker;
            if h.poll(wk) != Last::Item || w.has_violation() || h.subj.is_none() {
                break;
            }
        }
    }
    // all children self-wake forever: every call must still return, and must wake its task
    let ids = h.held.clone();
    for (i, id) in ids.iter().enumerate() {
        let mut ks = w.kids.borrow_mut();
        let k = &mut ks[*id as usize];
        k.self_wake = u32::MAX;
        if !stale.is_empty() && (few || i % 2 == 0) {
            k.wake_other = Some(stale[i % stale.len()]);
            k.other_first = if few { i % 4 != 3 } else { i % 4 == 0 };
        }
    }
    if !stale.is_empty() {
        // they have all been polled and sit idle: one wake-up each starts the self-waking
        for id in &ids {
            h.op_wake(*id, 0, 0);
        }
    }
    let rounds = h.rng.range(3, 10);
    for _ in 0..rounds {
        let wk = if h.rng.chance(1, 4) { h.rng.below(3) } else { h.last_waker };
        h.poll(wk);
        if w.has_violation() || h.subj.is_none() {
            break;
        }
    }
    // now everything becomes passive again: the budget yields must not have lost anybody
    for id in &ids {
        let mut ks = w.kids.borrow_mut();
        ks[*id as usize].self_wake = 0;
        ks[*id as usize].wake_other = None;
    }
    if !w.has_violation() {
        h.drain();
    }
    if !w.has_violation() {
        h.finish(h.hash & 1 == 0, true);
    }
    finish_result(h)
}

// ---------------------------------------------------------------------- quiet_stale (C14)

fn quiet_stale(p: &Params, seed: u64) -> HistResult {
    let mut h = Hist::new(seed, p.trace);
    h.w.armed.set(crate::sim::prop_tag(p.prop));
    let w = h.w.clone();
    let kind = p.kind.unwrap_or_else(|| *h.rng.pick(&[Kind::Fub, Kind::Fub, Kind::Fob, Kind::Fu, Kind::Fo, Kind::MergeB, Kind::BufU]));
    let cap = if p.small { h.rng.range(3, 8) } else { *h.rng.pick(&[3usize, 8, 33, 62, 63, 100, 123, 124, 200, 257]) };
    let keep = h.rng.range(1, 3).min(cap);
    match kind {
        Kind::MergeB => {
            let ids: Vec<u32> = (0..cap).map(|_| h.src_with(vec![SrcStep::Gap, SrcStep::Gap, SrcStep::End])).collect();
            construct_with_ids(&mut h, kind, &ids);
        }
        Kind::BufU => {
            let mut script = vec![UpStep::Item; cap];
            script.push(UpStep::Gap);
            script.push(UpStep::End);
            w.install_upstream(script, 0, 0, 0, 0);
            h.construct(kind, Ctor::New, cap, 0, None);
        }
        Kind::Fu | Kind::Fo => {
            h.construct(kind, Ctor::WithCap, cap, 0, None);
        }
        _ => {
            h.construct(kind, Ctor::New, cap, 0, None);
        }
    }
    if kind.is_collection() {
        for _ in 0..cap {
            let id = h.passive_fut();
            h.push_id(id, How::Back);
        }
    }
    h.poll_until_all_polled(cap / 30 + 8);
    if kind == Kind::BufU {
        h.poll_until_pending(4);
    }
    // finish all but `keep`; every finished child's retained wakers become stale
    let ids = h.held.clone();
    // (ordered subjects: finish the front of the queue, so that the outputs are really yielded)
    let finish: Vec<u32> = if kind.is_ordered() { h.order.iter().copied().take(ids.len() - keep).collect() } else { ids.iter().copied().skip(keep).collect() };
    for id in &finish {
        if kind.is_merge() {
            // two gaps: open both so that the source ends
            w.kids.borrow_mut()[*id as usize].pos = 2;
            h.op_wake(*id, 0, 0);
        } else {
            h.op_complete(*id, true);
        }
    }
    // consume them
    for _ in 0..2 * cap + 8 {
        let wk = h.last_waker;
        let r = h.poll(wk);
        if w.has_violation() || h.subj.is_none() {
            return finish_result(h);
        }
        if r == Last::Pending && !w.task_invoked_since(wk, h.last_start) {
            break;
        }
        if r == Last::Done {
            break;
        }
    }
    // fire every stale waker: one queue entry per vacant slot
    let stale: Vec<u32> = {
        let ks = w.kids.borrow();
        (0..ks.len() as u32).filter(|i| !ks[*i as usize].live() && !ks[*i as usize].wakers.is_empty()).collect()
    };
    let frac = h.rng.range(1, 4);
    for (i, id) in stale.iter().enumerate() {
        if i % 4 < frac {
            h.op_wake(*id, 0, 0);
        }
    }
    let before = h.flags.quiet_phases;
    h.op_quiet();
    if h.flags.quiet_phases == before && !w.has_violation() {
        h.aborted = Some("quiet window could not be entered".into());
    }
    if !w.has_violation() && h.aborted.is_none() {
        h.drain();
    }
    if !w.has_violation() {
        h.finish(false, true);
    }
    finish_result(h)
}

// ---------------------------------------------------------------------- quiet_budget (C14, C12, C01)

/// More children woken than one poll's budget, one poll, then a *redundant* wake of a child that is
/// still queued, then nobody wakes anything any more: the collection must fall silent.
fn quiet_budget(p: &Params, seed: u64) -> HistResult {
    let mut h = Hist::new(seed, p.trace);
    h.w.armed.set(crate::sim::prop_tag(p.prop));
    let w = h.w.clone();
    let kind = p.kind.unwrap_or_else(|| *h.rng.pick(&[Kind::Fub, Kind::Fub, Kind::Fob, Kind::Fu, Kind::Fo, Kind::MergeB]));
    let n = if p.small { h.rng.range(62, 66) } else { *h.rng.pick(&[62usize, 62, 63, 64, 100, 123, 124, 130, 200]) };
    match kind {
        Kind::MergeB => {
            let ids: Vec<u32> = (0..n).map(|_| h.src_with(vec![SrcStep::Gap, SrcStep::Gap, SrcStep::Gap, SrcStep::End])).collect();
            construct_with_ids(&mut h, kind, &ids);
        }
        Kind::Fu | Kind::Fo => {
            h.construct(kind, Ctor::WithCap, n, 0, None);
        }
        _ => {
            h.construct(kind, Ctor::New, n, 0, None);
        }
    }
    if kind.is_collection() {
        for _ in 0..n {
            let id = h.passive_fut();
            h.push_id(id, How::Back);
        }
    }
    h.poll_until_all_polled(n / 30 + 8);
    h.poll_until_pending(4);
    let ids = h.held.clone();
    let rounds = h.rng.range(1, 3);
    for _ in 0..rounds {
        if w.has_violation() || h.subj.is_none() {
            break;
        }
        // wake everybody, in a known order
        for id in &ids {
            h.op_wake(*id, 0, 0);
        }
        // one poll: the budget runs out with entries still queued
        let wk = h.last_waker;
        h.poll(wk);
        // redundant wake of a child that is (most likely) still queued: positions around the budget
        let j = match h.rng.below(6) {
            0..=2 => 61,
            3 => 60,
            4 => 62,
            _ => h.rng.below(n),
        };
        if let Some(id) = ids.get(j.min(n - 1)) {
            h.op_wake(*id, 0, 0);
        }
        let before = h.flags.quiet_phases;
        h.op_quiet();
        if h.flags.quiet_phases == before && !w.has_violation() {
            h.aborted = Some("quiet window could not be entered".into());
            break;
        }
    }
    if !w.has_violation() && h.aborted.is_none() {
        h.drain();
    }
    if !w.has_violation() {
        h.finish(false, true);
    }
    finish_result(h)
}

// ---------------------------------------------------------------------- oscillate (C18)

#[allow(clippy::too_many_arguments)]
fn oscillate_once(p: &Params, seed: u64, kind: Kind, ctor_cap: usize, peak: usize, cycles: usize, period: usize, partial: usize, front_every: usize) -> (Hist, u64) {
    let mut h = Hist::new(seed, p.trace);
    h.w.armed.set(crate::sim::prop_tag(p.prop));
    let w = h.w.clone();
    w.fair_enabled.set(false);
    let ctor = if ctor_cap == 0 { Ctor::New } else { Ctor::WithCap };
    h.construct(kind, if kind == Kind::MergeU { Ctor::New } else { ctor }, ctor_cap, 0, None);
    for c in 0..cycles {
        let phase = c % period;
        // fill up to the peak
        // (the pattern depends only on the phase, so every period repeats exactly)
        let mut nth = 0;
        while h.held.len() < peak && !w.has_violation() {
            let id = if kind.is_merge() { h.src_with(vec![SrcStep::Gap, SrcStep::Item, SrcStep::End]) } else { h.passive_fut() };
            let how = if kind == Kind::Fo && (nth + phase) % front_every == 0 { How::Front } else { How::Back };
            nth += 1;
            h.push_id(id, how);
        }
        h.poll_until_all_polled(peak / 30 + 8);
        // waker clone/drop storm in the steady state
        let ids = h.held.clone();
        for (i, id) in ids.iter().enumerate() {
            if (i + phase) % 3 == 0 {
                h.op_wake(*id, 2, i);
            }
        }
        // drain: completely on even phases, down to `partial` on odd ones
        let leave = if phase % 2 == 0 { 0 } else { partial.min(peak) };
        let n_done = ids.len().saturating_sub(leave);
        for id in ids.iter().take(n_done) {
            h.op_complete(*id, true);
        }
        let mut guard = 0;
        while h.held.len() > leave && guard < 4 * peak + 64 && !w.has_violation() && h.subj.is_some() {
            guard += 1;
            let wk = h.last_waker;
            if h.poll(wk) == Last::Done {
                break;
            }
        }
        if leave == 0 {
            // observe the end of the stream as a consumer would
            let wk = h.last_waker;
            h.poll(wk);
        }
        h.flags.cycles += 1;
        if w.has_violation() || h.subj.is_none() {
            break;
        }
    }
    let n = alloc::in_crate_allocs() - h.alloc_base;
    (h, n)
}

fn oscillate(p: &Params, seed: u64) -> HistResult {
    let mut r = crate::prng::Rng::new(seed);
    let kind = p.kind.unwrap_or_else(|| *r.pick(&[Kind::Fu, Kind::Fo, Kind::MergeU, Kind::Fu]));
    let peak = if p.small {
        r.range(1, 40)
    } else if r.chance(1, 300) {
        // beyond the 2048-slot group (rare: these runs take seconds)
        *r.pick(&[3100usize, 3300])
    } else {
        *r.pick(&[1usize, 2, 5, 31, 32, 33, 64, 65, 97, 200, 600])
    };
    let ctor_cap = if kind == Kind::MergeU { 0 } else { *r.pick(&[0usize, 0, 1, 2, 8]) };
    let period = r.range(2, 4);
    let partial = r.range(1, 5);
    let base_cycles = period * r.range(1, 2);
    // FuturesOrdered: share of push_front (1 = only push_front: the head position then keeps
    // crossing the re-base boundary in every cycle)
    let front_every = *r.pick(&[5usize, 5, 2, 1]);
    let mult = if p.small || peak > 1000 { 3 } else { 10 };
    let base_cycles = if peak > 1000 { period } else { base_cycles };
    let (mut h1, n1) = oscillate_once(p, seed, kind, ctor_cap, peak, base_cycles, period, partial, front_every);
    let v1 = h1.w.has_violation();
    if !v1 {
        h1.drain();
        if !h1.w.has_violation() {
            h1.finish(false, false);
        }
    }
    if h1.w.has_violation() {
        return finish_result(h1);
    }
    let _ = finish_result(h1);
    // FuturesOrdered additionally owns a binary heap of parked outputs whose high-water mark may
    // still creep up during the first periods (left-overs of partial drains shift the completion
    // order): its growth is bounded by log2(peak) reallocations in total, so 1x vs 10x is compared
    // with that slack and the strict "does not grow with the number processed" comparison is
    // made between 10x and 20x.
    let slack = if kind == Kind::Fo { (usize::BITS - peak.leading_zeros()) as u64 + 2 } else { 0 };
    let (mut h2, n2) = oscillate_once(p, seed, kind, ctor_cap, peak, base_cycles * mult, period, partial, front_every);
    if !h2.w.has_violation() && (n2 < n1 || n2 > n1 + slack) {
        h2.w.violation(
            "C18",
            "allocations_grow_with_processed",
            format!(
                "{}: peak {peak}: {n1} in-crate allocations for {base_cycles} fill/drain cycles, {n2} for {} cycles of the same pattern",
                h2.desc,
                base_cycles * mult
            ),
        );
    }
    if kind == Kind::Fo && !h2.w.has_violation() {
        h2.drain();
        if !h2.w.has_violation() {
            h2.finish(false, false);
        }
        if h2.w.has_violation() {
            return finish_result(h2);
        }
        let _ = finish_result(h2);
        let (h3, n3) = oscillate_once(p, seed, kind, ctor_cap, peak, base_cycles * mult * 2, period, partial, front_every);
        h2 = h3;
        if !h2.w.has_violation() && n3 != n2 {
            h2.w.violation(
                "C18",
                "allocations_grow_with_processed",
                format!(
                    "{}: peak {peak}: {n2} in-crate allocations for {} fill/drain cycles, {n3} for {} cycles of the same pattern",
                    h2.desc,
                    base_cycles * mult,
                    base_cycles * mult * 2
                ),
            );
        }
    }
    if !h2.w.has_violation() {
        h2.drain();
    }
    if !h2.w.has_violation() {
        h2.finish(true, false);
    }
    finish_result(h2)
}

// ---------------------------------------------------------------------- head_of_line (C16, C09)

fn head_of_line(p: &Params, seed: u64) -> HistResult {
    let mut h = Hist::new(seed, p.trace);
    h.w.armed.set(crate::sim::prop_tag(p.prop));
    let w = h.w.clone();
    let kind = p.kind.unwrap_or_else(|| *h.rng.pick(&[Kind::BufO, Kind::TryBufO]));
    let n = if p.small { h.rng.range(1, 4) } else { *h.rng.pick(&[1usize, 2, 3, 4, 8, 33, 64]) };
    let len = n * h.rng.range(5, 30) + h.rng.range(0, 7);
    let mut script = vec![UpStep::Item; len];
    if h.rng.chance(1, 2) {
        // a gap somewhere behind the stall point
        let at = h.rng.range(n.min(len - 1), len - 1);
        script.insert(at, UpStep::Gap);
    }
    script.push(UpStep::End);
    // every spawned future is ready at once, except the head which we stall below
    w.install_upstream(script, h.rng.below(5) as u8, 100, 0, 0);
    let start = if h.rng.chance(1, 2) { crate::sim::pick_start(&mut h.rng) } else { None };
    h.construct(kind, Ctor::New, n, 0, start);
    // first poll pulls the first n futures; un-ready the head before anything else completes
    w.up.borrow_mut().as_mut().unwrap().kid_ready_pct = 0;
    let wk = h.last_waker;
    h.poll(wk);
    w.up.borrow_mut().as_mut().unwrap().kid_ready_pct = 100;
    let head = h.order.front().copied();
    let others: Vec<u32> = h.held.iter().copied().filter(|i| Some(*i) != head).collect();
    for id in others {
        h.op_complete(id, true);
    }
    let rounds = 10 * n + 10;
    let mut quiet_done = false;
    for _ in 0..rounds {
        let wk = h.last_waker;
        let r = h.poll(wk);
        if w.has_violation() || h.subj.is_none() {
            return finish_result(h);
        }
        let finished_behind = {
            let ks = w.kids.borrow();
            h.held.iter().filter(|i| ks[**i as usize].state == KState::Done).count()
        };
        if finished_behind + 1 >= n.min(h.held.len()) && head.map_or(false, |hd| w.kids.borrow()[hd as usize].state != KState::Done) && n > 1 {
            h.flags.hol_stall = true;
        }
        if n == 1 {
            h.flags.hol_stall = true;
        }
        if h.flags.hol_stall && !quiet_done && r == Last::Pending {
            // the stalled state itself must be quiet: head pending, everything behind it
            // finished and parked, the limit reached - nobody wakes anything
            quiet_done = true;
            h.op_quiet();
            if w.has_violation() || h.subj.is_none() {
                return finish_result(h);
            }
        }
        if r == Last::Pending && !w.task_invoked_since(wk, h.last_start) {
            if h.rng.chance(1, 3) {
                w.up_open_gap(true);
            } else {
                break;
            }
        }
    }
    h.drain();
    if !w.has_violation() {
        h.finish(false, true);
    }
    finish_result(h)
}

// ---------------------------------------------------------------------- exact_burst (C09, C10, C01)

/// Bursts whose size sits on the internal batch boundaries (31..33, 60..65, 122/123, 127..129,
/// 255..257): that many upstream items ready at once, or that many spawned futures all woken
/// between two polls, followed directly by the end of the upstream (or a gap and a second
/// burst). Driven by an honest executor: whatever per-call budget an adapter has, it must not
/// go to sleep on it.
fn exact_burst(p: &Params, seed: u64) -> HistResult {
    let mut h = Hist::new(seed, p.trace);
    h.w.armed.set(crate::sim::prop_tag(p.prop));
    let w = h.w.clone();
    let kind = p.kind.unwrap_or_else(|| *h.rng.pick(&[Kind::ForEach, Kind::ForEach, Kind::BufU, Kind::BufO, Kind::TryBufU, Kind::TryBufO]));
    let nb = if p.small { *h.rng.pick(&[31usize, 32, 33, 61, 62]) } else { *h.rng.pick(&[31usize, 32, 33, 60, 61, 62, 63, 64, 65, 122, 123, 127, 128, 129, 255, 256, 257]) };
    // mode 3: `for_each_concurrent(0, ..)` holding several groups of futures; the newest group
    // completes first while older ones stay pending
    let mode = if kind == Kind::ForEach && nb > 33 && h.rng.chance(1, 4) { 3 } else { h.rng.below(3) };
    let limit = if mode == 3 {
        0
    } else if mode == 1 {
        if kind == Kind::ForEach && h.rng.chance(1, 2) {
            0
        } else {
            *h.rng.pick(&[nb, nb + 1, 2 * nb])
        }
    } else if kind == Kind::ForEach && h.rng.chance(1, 5) {
        0
    } else {
        *h.rng.pick(&[1usize, 1, 2, 3, 4, nb])
    };
    let mut script = vec![UpStep::Item; nb];
    if mode == 2 {
        script.push(UpStep::Gap);
        let second = if h.rng.chance(1, 2) { nb } else { h.rng.range(1, 2 * nb) };
        script.extend(std::iter::repeat(UpStep::Item).take(second));
    }
    script.push(UpStep::End);
    w.install_upstream(script, h.rng.below(5) as u8, if mode == 1 || mode == 3 { 0 } else { 100 }, 0, 0);
    h.construct(kind, Ctor::New, limit, 0, None);
    let mut woke_all = false;
    for _ in 0..(8 * nb + 40) {
        let wk = h.last_waker;
        let r = h.poll(wk);
        if w.has_violation() || h.subj.is_none() {
            return finish_result(h);
        }
        match r {
            Last::Done | Last::None => break,
            Last::Item => {}
            Last::Pending => {
                if w.task_invoked_since(wk, h.last_start) {
                    continue;
                }
                // the executor sleeps; the environment moves
                if mode == 1 && !woke_all {
                    woke_all = true;
                    let ids = h.held.clone();
                    for id in ids {
                        h.op_complete(id, true);
                    }
                } else if mode == 3 && !woke_all {
                    woke_all = true;
                    // groups hold 32, 64, 128 ... futures: finish the newest group only
                    let ids = h.held.clone();
                    let from = if ids.len() > 96 { 96 } else { 32 };
                    for id in ids.iter().skip(from) {
                        h.op_complete(*id, true);
                    }
                } else if mode == 3 && !h.held.is_empty() {
                    let ids = h.held.clone();
                    for id in ids {
                        h.op_complete(id, true);
                    }
                } else if !w.up_open_gap(true) {
                    break;
                }
            }
        }
    }
    if !w.has_violation() && h.subj.is_some() {
        h.drain();
    }
    if !w.has_violation() {
        h.finish(false, true);
    }
    finish_result(h)
}

// ---------------------------------------------------------------------- parked_extend (C18, C04)

/// `FuturesOrdered` with a head that stays pending while hundreds of younger futures are fed in
/// through many small `extend` calls (or single pushes) and complete at once: their outputs pile
/// up in the parked heap. The number of allocations may grow with the logarithm of the pile, not
/// with the number of batches; afterwards the head completes and everything comes out in order.
fn parked_extend(p: &Params, seed: u64) -> HistResult {
    let mut h = Hist::new(seed, p.trace);
    h.w.armed.set(crate::sim::prop_tag(p.prop));
    let w = h.w.clone();
    w.fair_enabled.set(false);
    let c = *h.rng.pick(&[0usize, 0, 1, 8]);
    h.construct(Kind::Fo, if c == 0 { Ctor::New } else { Ctor::WithCap }, c, 0, None);
    let head = h.passive_fut();
    h.push_id(head, How::Back);
    let wk = h.last_waker;
    h.poll(wk);
    let rounds = if p.small { h.rng.range(20, 40) } else { *h.rng.pick(&[100usize, 250, 600]) };
    let batch = h.rng.range(1, 3);
    let by_push = h.rng.chance(1, 5);
    w.extend_mode.set(*h.rng.pick(&[1u8, 1, 2, 0]));
    for _ in 0..rounds {
        if w.has_violation() || h.subj.is_none() {
            break;
        }
        let before = h.held.len();
        if by_push {
            for _ in 0..batch {
                let id = h.passive_fut();
                h.push_id(id, How::Back);
            }
        } else {
            h.op_extend(batch);
        }
        let new: Vec<u32> = h.held.iter().skip(before).copied().collect();
        for id in new {
            h.op_complete(id, false);
        }
        for _ in 0..3 {
            let wk = h.last_waker;
            if h.poll(wk) != Last::Pending || w.has_violation() || h.subj.is_none() {
                break;
            }
            if !w.task_invoked_since(wk, h.last_start) {
                break;
            }
        }
    }
    if !w.has_violation() && h.subj.is_some() {
        h.flags.hol_stall = true;
        h.check_alloc();
        h.op_complete(head, true);
        h.drain();
    }
    if !w.has_violation() {
        h.finish(false, true);
    }
    finish_result(h)
}

// ---------------------------------------------------------------------- wrap (C04)

fn wrap(p: &Params, seed: u64) -> HistResult {
    const MSB: usize = 1 << (usize::BITS - 1);
    let mut h = Hist::new(seed, p.trace);
    h.w.armed.set(crate::sim::prop_tag(p.prop));
    let w = h.w.clone();
    let kind = p.kind.unwrap_or_else(|| *h.rng.pick(&[Kind::Fob, Kind::Fo]));
    let cap = if p.small { h.rng.range(2, 5) } else { h.rng.range(2, 40) };
    // start so that the window of live positions straddles the sign bit or zero
    let off = h.rng.below(2 * cap + 2);
    let start = match h.rng.below(4) {
        0 => MSB.wrapping_sub(off),
        1 => 0usize.wrapping_sub(off),
        2 => MSB + off,
        _ => off,
    };
    h.construct(kind, if kind == Kind::Fo { Ctor::WithCap } else { Ctor::New }, cap, 0, Some(start));
    let rounds = h.rng.range(3 * cap, 8 * cap);
    let mut pos = start;
    for _ in 0..rounds {
        if w.has_violation() || h.subj.is_none() {
            break;
        }
        match h.rng.below(10) {
            0..=3 => {
                if h.running() < cap || kind == Kind::Fo {
                    let front = h.rng.chance(1, 3);
                    let id = h.passive_fut();
                    if h.rng.chance(1, 3) {
                        w.kids.borrow_mut()[id as usize].ready = true;
                    }
                    h.push_id(id, if front { How::Front } else { How::Back });
                }
            }
            4..=5 => {
                // complete out of order: prefer the back of the queue
                let cands: Vec<u32> = {
                    let ks = w.kids.borrow();
                    h.order.iter().rev().copied().filter(|i| ks[*i as usize].state != KState::Done && !ks[*i as usize].ready).take(3).collect()
                };
                if !cands.is_empty() {
                    let id = cands[h.rng.below(cands.len())];
                    h.op_complete(id, true);
                }
            }
            6 => {
                if let Some(id) = h.order.front().copied() {
                    h.op_complete(id, true);
                }
            }
            _ => {
                let wk = h.last_waker;
                if h.poll(wk) == Last::Item {
                    pos = pos.wrapping_add(1);
                    if pos == MSB || pos == 0 {
                        h.flags.rebase_crossed += 1;
                    }
                }
            }
        }
    }
    if start & MSB != 0 && h.polls_done > 0 {
        h.flags.rebase_crossed += 1;
    }
    if !w.has_violation() {
        h.drain();
    }
    if !w.has_violation() {
        h.finish(true, false);
    }
    finish_result(h)
}

// ---------------------------------------------------------------------- big_cap (C08, C02, C15)

/// Capacities and populations far beyond the usual ones (more than 1024 children in one slot map,
/// the 2048-slot group of the unbounded collections): children are pushed in chunks with polls in
/// between, so that early children have been polled (and pinned) long before late slots are used
/// for the first time.
fn big_cap(p: &Params, seed: u64) -> HistResult {
    let mut h = Hist::new(seed, p.trace);
    h.w.armed.set(crate::sim::prop_tag(p.prop));
    let w = h.w.clone();
    w.fair_enabled.set(false);
    let kind = p.kind.unwrap_or_else(|| *h.rng.pick(&[Kind::Fub, Kind::Fob, Kind::Fu, Kind::Fo, Kind::BufU]));
    let total = if p.small { h.rng.range(40, 80) } else { *h.rng.pick(&[1030usize, 1100, 1500, 2050, 2100, 3100]) };
    match kind {
        Kind::BufU => {
            let mut script = Vec::new();
            let mut left = total;
            while left > 0 {
                let c = h.rng.range(50, 400).min(left);
                script.extend(std::iter::repeat(UpStep::Item).take(c));
                script.push(UpStep::Gap);
                left -= c;
            }
            script.push(UpStep::End);
            w.install_upstream(script, 0, 0, 0, 0);
            h.construct(kind, Ctor::New, total, 0, None);
        }
        Kind::Fu | Kind::Fo => {
            h.construct(kind, Ctor::New, 0, 0, None);
        }
        _ => {
            h.construct(kind, Ctor::New, total, 0, None);
        }
    }
    let mut pushed = 0;
    while pushed < total && !w.has_violation() && h.subj.is_some() {
        let chunk = h.rng.range(50, 400).min(total - pushed);
        if kind == Kind::BufU {
            // one poll pulls the next run of items; then open the gap for the following chunk
            let wk = h.last_waker;
            h.poll(wk);
            w.up_open_gap(false);
        } else {
            for _ in 0..chunk {
                let id = h.passive_fut();
                let how = if kind.is_ordered() && h.rng.chance(1, 6) { How::Front } else { How::Back };
                h.push_id(id, how);
            }
        }
        pushed += chunk;
        h.poll_until_all_polled(chunk / 40 + 12);
        if h.rng.chance(1, 3) {
            h.op_relocate();
        }
        // a few complete early, so that slots are reused while the population keeps growing
        let ids = h.held.clone();
        for _ in 0..h.rng.range(0, 20) {
            if ids.is_empty() {
                break;
            }
            let id = ids[h.rng.below(ids.len())];
            h.op_complete(id, true);
        }
        for _ in 0..25 {
            let wk = h.last_waker;
            if h.poll(wk) != Last::Item || w.has_violation() || h.subj.is_none() {
                break;
            }
        }
    }
    if !w.has_violation() {
        h.drain();
    }
    if !w.has_violation() {
        h.finish(h.hash & 1 == 1, false);
    }
    finish_result(h)
}

// ---------------------------------------------------------------------- cap0_adapters (C14)

/// `buffered_*(0)`: the documentation defines no behaviour for a limit of zero (nothing can ever be
/// pulled), but whatever the adapter does, it must not keep its task spinning: with nothing held
/// and nobody waking anything, polls must come back Pending *without* the task waker invoked.
fn cap0_adapters(p: &Params, seed: u64) -> HistResult {
    let mut h = Hist::new(seed, p.trace);
    h.w.armed.set(crate::sim::prop_tag(p.prop));
    let w = h.w.clone();
    let kind = p.kind.unwrap_or_else(|| *h.rng.pick(&[Kind::BufU, Kind::BufO, Kind::TryBufU, Kind::TryBufO]));
    let n = h.rng.range(1, 6);
    let mut script = vec![UpStep::Item; n];
    if h.rng.chance(1, 2) {
        script.insert(h.rng.below(n), UpStep::Gap);
    }
    script.push(UpStep::End);
    w.install_upstream(script, h.rng.below(5) as u8, 50, 0, 0);
    if !h.construct(kind, Ctor::New, 0, 0, None) {
        return finish_result(h);
    }
    h.flags.quiet_phases += 1;
    let polls = h.rng.range(3, 8);
    let mut quiet_seen = false;
    for i in 0..polls {
        let wk = if h.rng.chance(1, 3) { h.rng.below(3) } else { h.last_waker };
        let r = h.poll(wk);
        if w.has_violation() || h.subj.is_none() {
            break;
        }
        if r == Last::Pending {
            let woken = w.task_invoked_since(wk, h.last_start);
            if !woken {
                quiet_seen = true;
            } else if i >= 2 || quiet_seen {
                w.violation(
                    "C14",
                    if quiet_seen { "spurious_task_wake_when_idle" } else { "quiet_not_reached" },
                    format!("{}: nothing is held, nobody wakes anything, yet poll #{i} invoked its task waker", h.desc),
                );
                break;
            }
        } else if r == Last::Done {
            break;
        }
    }
    // cancelled: whatever was pulled is dropped with the adapter
    if !w.has_violation() {
        h.finish(false, false);
    }
    finish_result(h)
}
