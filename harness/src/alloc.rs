//! Counting / poisoning global allocator (M-ALLOC, M-JOIN).
//!
//! Allocations are counted only while the current thread's *in-crate depth* is > 0: the harness
//! raises the depth around every call into futures-buffered and lowers it for the duration of
//! every callback (child poll / drop, upstream poll, closure, task-waker vtable).

use std::alloc::{GlobalAlloc, Layout, System};
use std::cell::Cell;
use std::sync::atomic::{AtomicBool, AtomicU64, Ordering};

pub struct Counting;

thread_local! {
    static DEPTH: Cell<u32> = const { Cell::new(0) };
    static COUNT: Cell<u64> = const { Cell::new(0) };
}
static POISON: AtomicBool = AtomicBool::new(false);
pub static TOTAL_ALLOCS: AtomicU64 = AtomicU64::new(0);

#[inline]
fn note() {
    // try_with: the allocator may run during thread teardown
    let _ = DEPTH.try_with(|d| {
        if d.get() > 0 {
            let _ = COUNT.try_with(|c| c.set(c.get() + 1));
        }
    });
}

unsafe impl GlobalAlloc for Counting {
    unsafe fn alloc(&self, l: Layout) -> *mut u8 {
        note();
        let p = unsafe { System.alloc(l) };
        if !p.is_null() && POISON.load(Ordering::Relaxed) {
            unsafe { std::ptr::write_bytes(p, 0xA5, l.size()) };
        }
        p
    }
    unsafe fn dealloc(&self, p: *mut u8, l: Layout) {
        if POISON.load(Ordering::Relaxed) {
            unsafe { std::ptr::write_bytes(p, 0xDD, l.size()) };
        }
        unsafe { System.dealloc(p, l) }
    }
    unsafe fn alloc_zeroed(&self, l: Layout) -> *mut u8 {
        note();
        unsafe { System.alloc_zeroed(l) }
    }
    unsafe fn realloc(&self, p: *mut u8, l: Layout, n: usize) -> *mut u8 {
        note();
        unsafe { System.realloc(p, l, n) }
    }
}

/// Enable 0xA5 fill of fresh memory / 0xDD fill of freed memory (never under Miri: it would turn
/// uninitialised memory into initialised memory and hide the very thing Miri reports).
pub fn set_poison(on: bool) {
    if cfg!(miri) {
        return;
    }
    POISON.store(on, Ordering::Relaxed);
}

pub struct DepthGuard(u32);
impl Drop for DepthGuard {
    fn drop(&mut self) {
        DEPTH.with(|d| d.set(self.0));
    }
}
/// control passes from the harness into the crate
#[inline]
pub fn enter_crate() -> DepthGuard {
    DEPTH.with(|d| {
        let old = d.get();
        d.set(old + 1);
        DepthGuard(old)
    })
}
/// control passes from the crate back into harness code (callback)
#[inline]
pub fn leave_crate() -> DepthGuard {
    DEPTH.with(|d| {
        let old = d.get();
        d.set(0);
        DepthGuard(old)
    })
}
/// is control inside the crate right now (not in a callback into harness code)?
pub fn in_crate() -> bool {
    DEPTH.with(|d| d.get() > 0)
}
pub fn in_crate_allocs() -> u64 {
    COUNT.with(|c| c.get())
}
