//! xoshiro256** seeded through splitmix64; hand-written because no crates may be fetched.

#[derive(Clone)]
pub struct Rng {
    s: [u64; 4],
}

pub fn splitmix(x: &mut u64) -> u64 {
    *x = x.wrapping_add(0x9E37_79B9_7F4A_7C15);
    let mut z = *x;
    z = (z ^ (z >> 30)).wrapping_mul(0xBF58_476D_1CE4_E5B9);
    z = (z ^ (z >> 27)).wrapping_mul(0x94D0_49BB_1331_11EB);
    z ^ (z >> 31)
}

impl Rng {
    pub fn new(seed: u64) -> Self {
        let mut x = seed;
        let s = [splitmix(&mut x), splitmix(&mut x), splitmix(&mut x), splitmix(&mut x)];
        Rng { s }
    }
    pub fn next(&mut self) -> u64 {
        let r = self.s[1].wrapping_mul(5).rotate_left(7).wrapping_mul(9);
        let t = self.s[1] << 17;
        self.s[2] ^= self.s[0];
        self.s[3] ^= self.s[1];
        self.s[1] ^= self.s[2];
        self.s[0] ^= self.s[3];
        self.s[2] ^= t;
        self.s[3] = self.s[3].rotate_left(45);
        r
    }
    /// uniform in 0..n (n > 0)
    pub fn below(&mut self, n: usize) -> usize {
        debug_assert!(n > 0);
        (self.next() % n as u64) as usize
    }
    /// uniform in lo..=hi
    pub fn range(&mut self, lo: usize, hi: usize) -> usize {
        lo + self.below(hi - lo + 1)
    }
    /// true with probability num/den
    pub fn chance(&mut self, num: usize, den: usize) -> bool {
        self.below(den) < num
    }
    pub fn pick<'a, T>(&mut self, xs: &'a [T]) -> &'a T {
        &xs[self.below(xs.len())]
    }
    /// index drawn by weights
    pub fn weighted(&mut self, ws: &[u32]) -> usize {
        let total: u32 = ws.iter().sum();
        let mut r = self.below(total as usize) as u32;
        for (i, w) in ws.iter().enumerate() {
            if r < *w {
                return i;
            }
            r -= *w;
        }
        ws.len() - 1
    }
}

pub fn fnv(h: &mut u64, x: u64) {
    for i in 0..8 {
        *h ^= (x >> (i * 8)) & 0xff;
        *h = h.wrapping_mul(0x0000_0100_0000_01B3);
    }
}
pub const FNV0: u64 = 0xcbf2_9ce4_8422_2325;
