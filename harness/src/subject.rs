//! One adapter per public entry point of the crate, all behind one object-safe trait.

use crate::alloc::enter_crate;
use crate::kids::{Child, PlainChild, Src, TryChild, UnitChild, UpFut, UpItem, UpTry};
use crate::world::{ev, w, ErrTok, Ident, ObjKind, Tok};
use futures_buffered::{
    join_all, try_join_all, BufferUnordered, BufferedOrdered, BufferedStreamExt, BufferedTryStreamExt,
    FuturesOrdered, FuturesOrderedBounded, FuturesUnordered, FuturesUnorderedBounded, JoinAll, MergeBounded, MergeUnbounded,
    TryBufferUnordered, TryBufferedOrdered, TryJoinAll,
};
use futures_core::{FusedFuture, FusedStream, Stream};
use std::future::Future;
use std::marker::PhantomPinned;
use std::pin::Pin;
use std::task::{Context, Poll};

#[derive(Clone, Copy, PartialEq, Eq, Debug, Hash)]
pub enum Kind {
    Fub,
    Fu,
    Fob,
    Fo,
    MergeB,
    MergeU,
    BufU,
    BufO,
    TryBufU,
    TryBufO,
    ForEach,
    JoinAll,
    TryJoinAll,
}

pub const ALL_KINDS: [Kind; 13] = [
    Kind::Fub,
    Kind::Fu,
    Kind::Fob,
    Kind::Fo,
    Kind::MergeB,
    Kind::MergeU,
    Kind::BufU,
    Kind::BufO,
    Kind::TryBufU,
    Kind::TryBufO,
    Kind::ForEach,
    Kind::JoinAll,
    Kind::TryJoinAll,
];

impl Kind {
    pub fn name(self) -> &'static str {
        match self {
            Kind::Fub => "FuturesUnorderedBounded",
            Kind::Fu => "FuturesUnordered",
            Kind::Fob => "FuturesOrderedBounded",
            Kind::Fo => "FuturesOrdered",
            Kind::MergeB => "MergeBounded",
            Kind::MergeU => "MergeUnbounded",
            Kind::BufU => "buffered_unordered",
            Kind::BufO => "buffered_ordered",
            Kind::TryBufU => "try_buffered_unordered",
            Kind::TryBufO => "try_buffered_ordered",
            Kind::ForEach => "for_each_concurrent",
            Kind::JoinAll => "join_all",
            Kind::TryJoinAll => "try_join_all",
        }
    }
    pub fn from_name(s: &str) -> Option<Kind> {
        ALL_KINDS.iter().copied().find(|k| k.name() == s)
    }
    pub fn is_collection(self) -> bool {
        matches!(self, Kind::Fub | Kind::Fu | Kind::Fob | Kind::Fo)
    }
    pub fn is_merge(self) -> bool {
        matches!(self, Kind::MergeB | Kind::MergeU)
    }
    pub fn is_adapter(self) -> bool {
        matches!(self, Kind::BufU | Kind::BufO | Kind::TryBufU | Kind::TryBufO | Kind::ForEach)
    }
    pub fn is_join(self) -> bool {
        matches!(self, Kind::JoinAll | Kind::TryJoinAll)
    }
    pub fn is_ordered(self) -> bool {
        matches!(self, Kind::Fob | Kind::Fo | Kind::BufO | Kind::TryBufO)
    }
    pub fn is_unbounded(self) -> bool {
        matches!(self, Kind::Fu | Kind::Fo | Kind::MergeU)
    }
    pub fn is_try(self) -> bool {
        matches!(self, Kind::TryBufU | Kind::TryBufO | Kind::TryJoinAll)
    }
    pub fn is_stream(self) -> bool {
        !matches!(self, Kind::ForEach | Kind::JoinAll | Kind::TryJoinAll)
    }
}

pub enum Yield {
    Tok(Tok),
    Err(ErrTok),
    Vec(Vec<Tok>),
    /// result of a join whose inputs have a zero-sized output: only the length is left
    Units(usize),
    Unit,
}

pub enum Polled {
    Pending,
    Item(Yield),
    Done,
}

#[derive(Clone, Copy, PartialEq, Eq, Debug)]
pub enum How {
    Back,
    Front,
    TryBack,
    TryFront,
}

#[derive(Default, Clone, Debug, PartialEq, Eq)]
pub struct Obs {
    pub len: Option<usize>,
    pub is_empty: Option<bool>,
    pub hint: Option<(usize, Option<usize>)>,
    pub term: Option<bool>,
    pub cap: Option<usize>,
}

pub type Layout = (usize, Vec<(usize, usize)>);

pub trait Subject {
    fn poll(&mut self, cx: &mut Context<'_>) -> Polled;
    /// `Err(id)`: the push was refused and the very child with that id came back
    fn push(&mut self, _how: How, _id: u32) -> Result<(), u32> {
        panic!("subject does not take pushes")
    }
    /// `Extend::extend` with a batch that fits (ordered collections); false = not supported
    fn extend(&mut self, _ids: &[u32]) -> bool {
        false
    }
    fn obs(&self) -> Obs;
    fn layout(&self) -> Option<Layout> {
        None
    }
    /// move the value to a new address (through a reallocating `Vec`)
    fn relocate(self: Box<Self>) -> Box<dyn Subject>;
}

fn moved<T>(v: T) -> T {
    let mut tmp: Vec<T> = Vec::with_capacity(1);
    tmp.push(v);
    tmp.reserve(8);
    tmp.pop().unwrap()
}

fn map_tok(p: Poll<Option<Tok>>) -> Polled {
    match p {
        Poll::Pending => Polled::Pending,
        Poll::Ready(Some(t)) => Polled::Item(Yield::Tok(t)),
        Poll::Ready(None) => Polled::Done,
    }
}
fn map_try(p: Poll<Option<Result<Tok, ErrTok>>>) -> Polled {
    match p {
        Poll::Pending => Polled::Pending,
        Poll::Ready(Some(Ok(t))) => Polled::Item(Yield::Tok(t)),
        Poll::Ready(Some(Err(e))) => Polled::Item(Yield::Err(e)),
        Poll::Ready(None) => Polled::Done,
    }
}

macro_rules! reloc {
    () => {
        fn relocate(self: Box<Self>) -> Box<dyn Subject> {
            let v = *self;
            Box::new(moved(v))
        }
    };
}

// ---------------------------------------------------------------------- collections

pub struct SFub(pub FuturesUnorderedBounded<Child>);
impl Subject for SFub {
    fn poll(&mut self, cx: &mut Context<'_>) -> Polled {
        let _g = enter_crate();
        map_tok(Pin::new(&mut self.0).poll_next(cx))
    }
    fn push(&mut self, how: How, id: u32) -> Result<(), u32> {
        let c = Child::new(id);
        let _g = enter_crate();
        match how {
            How::Back | How::Front => {
                self.0.push(c);
                Ok(())
            }
            How::TryBack | How::TryFront => self.0.try_push(c).map_err(|c| c.id),
        }
    }
    fn obs(&self) -> Obs {
        let _g = enter_crate();
        Obs {
            len: Some(self.0.len()),
            is_empty: Some(self.0.is_empty()),
            hint: Some(self.0.size_hint()),
            term: Some(self.0.is_terminated()),
            cap: Some(self.0.capacity()),
        }
    }
    reloc!();
}

pub struct SFu(pub FuturesUnordered<Child>);
impl Subject for SFu {
    fn poll(&mut self, cx: &mut Context<'_>) -> Polled {
        let _g = enter_crate();
        map_tok(Pin::new(&mut self.0).poll_next(cx))
    }
    fn push(&mut self, _how: How, id: u32) -> Result<(), u32> {
        let c = Child::new(id);
        let _g = enter_crate();
        self.0.push(c);
        Ok(())
    }
    fn obs(&self) -> Obs {
        let _g = enter_crate();
        Obs {
            len: Some(self.0.len()),
            is_empty: Some(self.0.is_empty()),
            hint: Some(self.0.size_hint()),
            term: Some(self.0.is_terminated()),
            cap: Some(self.0.capacity()),
        }
    }
    fn layout(&self) -> Option<Layout> {
        Some(self.0.verif_layout())
    }
    reloc!();
}

pub struct SFob(pub FuturesOrderedBounded<Child>);
impl Subject for SFob {
    fn poll(&mut self, cx: &mut Context<'_>) -> Polled {
        let _g = enter_crate();
        map_tok(Pin::new(&mut self.0).poll_next(cx))
    }
    fn push(&mut self, how: How, id: u32) -> Result<(), u32> {
        let c = Child::new(id);
        let _g = enter_crate();
        match how {
            How::Back => {
                self.0.push_back(c);
                Ok(())
            }
            How::Front => {
                self.0.push_front(c);
                Ok(())
            }
            How::TryBack => self.0.try_push_back(c).map_err(|c| c.id),
            How::TryFront => self.0.try_push_front(c).map_err(|c| c.id),
        }
    }
    fn extend(&mut self, ids: &[u32]) -> bool {
        let v: Vec<Child> = ids.iter().map(|i| Child::new(*i)).collect();
        // half of the batches come from an iterator whose size hint says (0, Some(n))
        let inexact = match w().extend_mode.get() {
            1 => false,
            2 => true,
            _ => w().rng.borrow_mut().chance(1, 2),
        };
        let _g = enter_crate();
        if inexact {
            self.0.extend(v.into_iter().filter(|_| true));
        } else {
            self.0.extend(v);
        }
        true
    }
    fn obs(&self) -> Obs {
        let _g = enter_crate();
        Obs {
            len: Some(self.0.len()),
            is_empty: Some(self.0.is_empty()),
            hint: Some(self.0.size_hint()),
            term: Some(self.0.is_terminated()),
            cap: None,
        }
    }
    reloc!();
}

pub struct SFo(pub FuturesOrdered<Child>);
impl Subject for SFo {
    fn poll(&mut self, cx: &mut Context<'_>) -> Polled {
        let _g = enter_crate();
        map_tok(Pin::new(&mut self.0).poll_next(cx))
    }
    fn push(&mut self, how: How, id: u32) -> Result<(), u32> {
        let c = Child::new(id);
        let _g = enter_crate();
        match how {
            How::Back | How::TryBack => self.0.push_back(c),
            How::Front | How::TryFront => self.0.push_front(c),
        }
        Ok(())
    }
    fn extend(&mut self, ids: &[u32]) -> bool {
        let v: Vec<Child> = ids.iter().map(|i| Child::new(*i)).collect();
        // half of the batches come from an iterator whose size hint says (0, Some(n))
        let inexact = match w().extend_mode.get() {
            1 => false,
            2 => true,
            _ => w().rng.borrow_mut().chance(1, 2),
        };
        let _g = enter_crate();
        if inexact {
            self.0.extend(v.into_iter().filter(|_| true));
        } else {
            self.0.extend(v);
        }
        true
    }
    fn obs(&self) -> Obs {
        let _g = enter_crate();
        Obs {
            len: Some(self.0.len()),
            is_empty: Some(self.0.is_empty()),
            hint: Some(self.0.size_hint()),
            term: Some(self.0.is_terminated()),
            cap: None,
        }
    }
    fn layout(&self) -> Option<Layout> {
        Some(self.0.verif_layout())
    }
    reloc!();
}

// ---------------------------------------------------------------------- merges

pub struct SMergeB(pub MergeBounded<Src<PhantomPinned>>);
impl Subject for SMergeB {
    fn poll(&mut self, cx: &mut Context<'_>) -> Polled {
        let _g = enter_crate();
        map_tok(Pin::new(&mut self.0).poll_next(cx))
    }
    fn push(&mut self, how: How, id: u32) -> Result<(), u32> {
        let c = Src::new(id);
        let _g = enter_crate();
        match how {
            How::Back | How::Front => {
                self.0.push(c);
                Ok(())
            }
            How::TryBack | How::TryFront => self.0.try_push(c).map_err(|c| c.id),
        }
    }
    fn obs(&self) -> Obs {
        let _g = enter_crate();
        Obs { hint: Some(self.0.size_hint()), ..Obs::default() }
    }
    reloc!();
}

pub struct SMergeU(pub MergeUnbounded<Src<()>>);
impl Subject for SMergeU {
    fn poll(&mut self, cx: &mut Context<'_>) -> Polled {
        let _g = enter_crate();
        map_tok(Pin::new(&mut self.0).poll_next(cx))
    }
    fn push(&mut self, _how: How, id: u32) -> Result<(), u32> {
        let c = Src::new(id);
        let _g = enter_crate();
        self.0.push(c);
        Ok(())
    }
    fn obs(&self) -> Obs {
        let _g = enter_crate();
        Obs { len: Some(self.0.len()), is_empty: Some(self.0.is_empty()), hint: Some(self.0.size_hint()), ..Obs::default() }
    }
    fn layout(&self) -> Option<Layout> {
        Some(self.0.verif_layout())
    }
    reloc!();
}

// ---------------------------------------------------------------------- adapters

pub struct SBufU(pub BufferUnordered<UpFut>);
impl Subject for SBufU {
    fn poll(&mut self, cx: &mut Context<'_>) -> Polled {
        let _g = enter_crate();
        map_tok(Pin::new(&mut self.0).poll_next(cx))
    }
    fn obs(&self) -> Obs {
        let _g = enter_crate();
        Obs { hint: Some(self.0.size_hint()), ..Obs::default() }
    }
    reloc!();
}

pub struct SBufO(pub BufferedOrdered<UpFut>);
impl Subject for SBufO {
    fn poll(&mut self, cx: &mut Context<'_>) -> Polled {
        let _g = enter_crate();
        map_tok(Pin::new(&mut self.0).poll_next(cx))
    }
    fn obs(&self) -> Obs {
        let _g = enter_crate();
        Obs { hint: Some(self.0.size_hint()), ..Obs::default() }
    }
    reloc!();
}

pub struct STryBufU(pub TryBufferUnordered<UpTry>);
impl Subject for STryBufU {
    fn poll(&mut self, cx: &mut Context<'_>) -> Polled {
        let _g = enter_crate();
        map_try(Pin::new(&mut self.0).poll_next(cx))
    }
    fn obs(&self) -> Obs {
        let _g = enter_crate();
        Obs { hint: Some(self.0.size_hint()), ..Obs::default() }
    }
    reloc!();
}

pub struct STryBufO(pub TryBufferedOrdered<UpTry>);
impl Subject for STryBufO {
    fn poll(&mut self, cx: &mut Context<'_>) -> Polled {
        let _g = enter_crate();
        map_try(Pin::new(&mut self.0).poll_next(cx))
    }
    fn obs(&self) -> Obs {
        let _g = enter_crate();
        Obs { hint: Some(self.0.size_hint()), ..Obs::default() }
    }
    reloc!();
}

pub struct Closure(Ident);
impl Closure {
    fn call(&mut self, item: u32) -> UnitChild {
        let _g = crate::alloc::leave_crate();
        let w = w();
        w.event(ev::CLOSURE, item as u64, item as u64);
        w.delivered.borrow_mut().push(item);
        w.accept(item);
        UnitChild(Child::new(item))
    }
}
// `ForEachConcurrent` is not nameable from outside the crate, hence the type parameter
pub struct SForEach<F>(pub F);
impl<F: FusedFuture<Output = ()> + Unpin + 'static> Subject for SForEach<F> {
    fn poll(&mut self, cx: &mut Context<'_>) -> Polled {
        let _g = enter_crate();
        match Pin::new(&mut self.0).poll(cx) {
            Poll::Pending => Polled::Pending,
            Poll::Ready(()) => Polled::Done,
        }
    }
    fn obs(&self) -> Obs {
        let _g = enter_crate();
        Obs { term: Some(self.0.is_terminated()), ..Obs::default() }
    }
    reloc!();
}

// ---------------------------------------------------------------------- joins

pub struct SJoin(pub JoinAll<Child>);
impl Subject for SJoin {
    fn poll(&mut self, cx: &mut Context<'_>) -> Polled {
        let _g = enter_crate();
        match Pin::new(&mut self.0).poll(cx) {
            Poll::Pending => Polled::Pending,
            Poll::Ready(v) => Polled::Item(Yield::Vec(v)),
        }
    }
    fn obs(&self) -> Obs {
        Obs::default()
    }
    reloc!();
}

pub struct SJoinPlain(pub JoinAll<PlainChild>);
impl Subject for SJoinPlain {
    fn poll(&mut self, cx: &mut Context<'_>) -> Polled {
        let _g = enter_crate();
        match Pin::new(&mut self.0).poll(cx) {
            Poll::Pending => Polled::Pending,
            Poll::Ready(v) => Polled::Item(Yield::Vec(v)),
        }
    }
    fn obs(&self) -> Obs {
        Obs::default()
    }
    reloc!();
}

pub struct SJoinUnit(pub JoinAll<UnitChild>);
impl Subject for SJoinUnit {
    fn poll(&mut self, cx: &mut Context<'_>) -> Polled {
        let _g = enter_crate();
        match Pin::new(&mut self.0).poll(cx) {
            Poll::Pending => Polled::Pending,
            Poll::Ready(v) => Polled::Item(Yield::Units(v.len())),
        }
    }
    fn obs(&self) -> Obs {
        Obs::default()
    }
    reloc!();
}

pub struct STryJoin(pub TryJoinAll<TryChild>);
impl Subject for STryJoin {
    fn poll(&mut self, cx: &mut Context<'_>) -> Polled {
        let _g = enter_crate();
        match Pin::new(&mut self.0).poll(cx) {
            Poll::Pending => Polled::Pending,
            Poll::Ready(Ok(v)) => Polled::Item(Yield::Vec(v)),
            Poll::Ready(Err(e)) => Polled::Item(Yield::Err(e)),
        }
    }
    fn obs(&self) -> Obs {
        Obs::default()
    }
    reloc!();
}

// ---------------------------------------------------------------------- construction

pub enum Ctor {
    New,
    /// `with_capacity` for the unbounded collections
    WithCap,
    FromIter,
}

/// Build a subject. `cap` = capacity / limit / initial capacity; `ids` = initial children
/// (`FromIter`, joins, `MergeB`); `start` = seeded position counter for the ordered ones.
/// Runs with the in-crate allocation depth raised; may panic (the caller catches).
pub fn make(kind: Kind, ctor: Ctor, cap: usize, ids: &[u32], start: Option<usize>) -> Box<dyn Subject> {
    let w = w();
    // from_iter / join_all are sometimes fed an iterator whose size_hint lower bound is below its
    // real length (a `filter`), as user code does
    let inexact = w.rng.borrow_mut().chance(1, 3);
    /// an input iterator that panics instead of yielding its `at`-th item (user code may)
    struct PanicAt<I> {
        inner: I,
        i: usize,
        at: usize,
    }
    impl<I: Iterator> Iterator for PanicAt<I> {
        type Item = I::Item;
        fn next(&mut self) -> Option<I::Item> {
            if self.i == self.at {
                self.i += 1;
                let _g = crate::alloc::leave_crate();
                crate::world::w().panic_mode.set(true);
                panic!("scripted panic in the input iterator");
            }
            self.i += 1;
            self.inner.next()
        }
        fn size_hint(&self) -> (usize, Option<usize>) {
            self.inner.size_hint()
        }
    }
    let it_panic_at = w.iter_panic_at.take();
    fn it<T>(v: Vec<T>, inexact: bool) -> Box<dyn Iterator<Item = T>>
    where
        T: 'static,
    {
        let at = crate::world::w().iter_panic_now.take();
        let b: Box<dyn Iterator<Item = T>> = if inexact { Box::new(v.into_iter().filter(|_| true)) } else { Box::new(v.into_iter()) };
        match at {
            Some(at) => Box::new(PanicAt { inner: b, i: 0, at }),
            None => b,
        }
    }
    w.iter_panic_now.set(it_panic_at);
    match kind {
        Kind::Fub => match ctor {
            Ctor::FromIter => {
                let v: Vec<Child> = ids.iter().map(|i| Child::new(*i)).collect();
                let _g = enter_crate();
                Box::new(SFub(it(v, inexact).collect()))
            }
            _ => {
                let _g = enter_crate();
                Box::new(SFub(FuturesUnorderedBounded::new(cap)))
            }
        },
        Kind::Fu => match ctor {
            Ctor::FromIter => {
                let v: Vec<Child> = ids.iter().map(|i| Child::new(*i)).collect();
                let _g = enter_crate();
                Box::new(SFu(it(v, inexact).collect()))
            }
            Ctor::WithCap => {
                let _g = enter_crate();
                Box::new(SFu(FuturesUnordered::with_capacity(cap)))
            }
            Ctor::New => {
                let _g = enter_crate();
                Box::new(SFu(FuturesUnordered::new()))
            }
        },
        Kind::Fob => match ctor {
            Ctor::FromIter => {
                let v: Vec<Child> = ids.iter().map(|i| Child::new(*i)).collect();
                let _g = enter_crate();
                Box::new(SFob(it(v, inexact).collect()))
            }
            _ => {
                let _g = enter_crate();
                let mut q = FuturesOrderedBounded::new(cap);
                if let Some(s) = start {
                    q.verif_seed_positions(s);
                }
                Box::new(SFob(q))
            }
        },
        Kind::Fo => match ctor {
            Ctor::FromIter => {
                let v: Vec<Child> = ids.iter().map(|i| Child::new(*i)).collect();
                let _g = enter_crate();
                Box::new(SFo(it(v, inexact).collect()))
            }
            Ctor::WithCap => {
                let _g = enter_crate();
                let mut q = FuturesOrdered::with_capacity(cap);
                if let Some(s) = start {
                    q.verif_seed_positions(s);
                }
                Box::new(SFo(q))
            }
            Ctor::New => {
                let _g = enter_crate();
                let mut q = FuturesOrdered::new();
                if let Some(s) = start {
                    q.verif_seed_positions(s);
                }
                Box::new(SFo(q))
            }
        },
        Kind::MergeB => {
            let v: Vec<Src<PhantomPinned>> = ids.iter().map(|i| Src::new(*i)).collect();
            let _g = enter_crate();
            Box::new(SMergeB(it(v, inexact).collect()))
        }
        Kind::MergeU => match ctor {
            Ctor::FromIter => {
                let v: Vec<Src<()>> = ids.iter().map(|i| Src::new(*i)).collect();
                let _g = enter_crate();
                Box::new(SMergeU(it(v, inexact).collect()))
            }
            _ => {
                let _g = enter_crate();
                Box::new(SMergeU(MergeUnbounded::new()))
            }
        },
        Kind::BufU => {
            let up = UpFut(Ident(w.up.borrow().as_ref().unwrap().obj));
            let _g = enter_crate();
            Box::new(SBufU(up.buffered_unordered(cap)))
        }
        Kind::BufO => {
            let up = UpFut(Ident(w.up.borrow().as_ref().unwrap().obj));
            let _g = enter_crate();
            let mut s = up.buffered_ordered(cap);
            if let Some(st) = start {
                Pin::new(&mut s).verif_seed_positions(st);
            }
            Box::new(SBufO(s))
        }
        Kind::TryBufU => {
            let up = UpTry(Ident(w.up.borrow().as_ref().unwrap().obj));
            let _g = enter_crate();
            Box::new(STryBufU(up.try_buffered_unordered(cap)))
        }
        Kind::TryBufO => {
            let up = UpTry(Ident(w.up.borrow().as_ref().unwrap().obj));
            let _g = enter_crate();
            let mut s = up.try_buffered_ordered(cap);
            if let Some(st) = start {
                Pin::new(&mut s).verif_seed_positions(st);
            }
            Box::new(STryBufO(s))
        }
        Kind::ForEach => {
            let up = UpItem(Ident(w.up.borrow().as_ref().unwrap().obj));
            let mut clo = Closure(Ident::new(ObjKind::Closure));
            let f: Box<dyn FnMut(u32) -> UnitChild> = Box::new(move |item| clo.call(item));
            let _g = enter_crate();
            Box::new(SForEach(up.for_each_concurrent(cap, f)))
        }
        Kind::JoinAll if w.plain_join.get() => {
            for i in ids {
                w.kids.borrow_mut()[*i as usize].plain = true;
            }
            let v: Vec<PlainChild> = ids.iter().map(|i| PlainChild { id: *i }).collect();
            let _g = enter_crate();
            Box::new(SJoinPlain(join_all(it(v, inexact))))
        }
        Kind::JoinAll if w.unit_join.get() => {
            let v: Vec<UnitChild> = ids.iter().map(|i| UnitChild(Child::new(*i))).collect();
            let _g = enter_crate();
            Box::new(SJoinUnit(join_all(it(v, inexact))))
        }
        Kind::JoinAll => {
            let v: Vec<Child> = ids.iter().map(|i| Child::new(*i)).collect();
            let _g = enter_crate();
            Box::new(SJoin(join_all(it(v, inexact))))
        }
        Kind::TryJoinAll => {
            let v: Vec<TryChild> = ids.iter().map(|i| TryChild(Child::new(*i))).collect();
            let _g = enter_crate();
            Box::new(STryJoin(try_join_all(it(v, inexact))))
        }
    }
}
