//! The child types handed to the crate. They are thin identities; all behaviour lives in `World`.

use crate::alloc::leave_crate;
use crate::world::{ev, w, ErrTok, Ident, ObjKind, Tok, UpStep, Upstream};
use futures_core::Stream;
use std::future::Future;
use std::marker::PhantomPinned;
use std::pin::Pin;
use std::task::{Context, Poll};

/// `!Unpin` future with a unique id; `Output = Tok`. If its script lists grandchildren it is a
/// *nested* child: a `join_all` over them, so that a child waker of this crate becomes the task
/// waker registered inside another instance of the crate.
pub struct Child {
    pub id: u32,
    inner: Option<Box<futures_buffered::JoinAll<Child>>>,
    _pin: PhantomPinned,
}
impl Child {
    pub fn new(id: u32) -> Child {
        let grand: Vec<u32> = crate::world::try_w().map(|w| w.kids.borrow()[id as usize].nested.clone()).unwrap_or_default();
        let inner = if grand.is_empty() { None } else { Some(Box::new(futures_buffered::join_all(grand.into_iter().map(Child::new)))) };
        Child { id, inner, _pin: PhantomPinned }
    }
}
impl Future for Child {
    type Output = Tok;
    fn poll(self: Pin<&mut Self>, cx: &mut Context<'_>) -> Poll<Tok> {
        let addr = &*self as *const Child as usize;
        let w = w();
        // SAFETY: nothing is moved out of `self`; `inner` is a Box, its target does not move
        let this = unsafe { self.get_unchecked_mut() };
        let id = this.id;
        let Some(inner) = this.inner.as_mut() else {
            return match w.fut_poll(id, addr, cx) {
                Some(_) => {
                    let _g = leave_crate();
                    Poll::Ready(Tok::new(ObjKind::Tok, id, 0))
                }
                None => Poll::Pending,
            };
        };
        // this is harness code called back from the crate: nothing it allocates is the crate's
        let _g = leave_crate();
        if !w.nested_poll_begin(id, addr, cx) {
            return Poll::Pending;
        }
        let wrapper = nested_waker(id, w.clone_waker(cx.waker()));
        let r = {
            let mut cx2 = Context::from_waker(&wrapper);
            let _g = crate::alloc::enter_crate();
            Pin::new(&mut **inner).poll(&mut cx2)
        };
        drop(wrapper);
        match r {
            Poll::Ready(v) => {
                w.nested_poll_ready(id);
                // (dropped by the harness, not by the crate: no scripted output panic here)
                let saved = w.tok_panics.replace(None);
                drop(v);
                w.tok_panics.set(saved);
                Poll::Ready(Tok::new(ObjKind::Tok, id, 0))
            }
            Poll::Pending => {
                w.nested_poll_pending(id, cx);
                Poll::Pending
            }
        }
    }
}
impl Drop for Child {
    fn drop(&mut self) {
        let addr = self as *const Child as usize;
        if let Some(inner) = self.inner.take() {
            // the inner combinator is crate code: it drops the wrapper waker registered in it
            let _g = crate::alloc::enter_crate();
            drop(inner);
        }
        if let Some(w) = crate::world::try_w() {
            w.kid_dropped(self.id, addr);
        }
    }
}

/// The waker a nested child hands to its inner combinator: records the invocation as a wake of
/// the nested child, then forwards to the crate waker the nested child was polled with.
struct NestedW {
    owner: u32,
    inner: Option<std::task::Waker>,
}
fn nested_waker(owner: u32, inner: std::task::Waker) -> std::task::Waker {
    use std::task::{RawWaker, RawWakerVTable, Waker};
    unsafe fn nw<'a>(p: *const ()) -> &'a NestedW {
        unsafe { &*(p as *const NestedW) }
    }
    static VT: RawWakerVTable = RawWakerVTable::new(
        |p| {
            let _g = leave_crate();
            let me = unsafe { nw(p) };
            let c = match crate::world::try_w() {
                Some(w) => w.clone_waker(me.inner.as_ref().unwrap()),
                None => me.inner.as_ref().unwrap().clone(),
            };
            RawWaker::new(Box::into_raw(Box::new(NestedW { owner: me.owner, inner: Some(c) })) as *const (), &VT)
        },
        |p| {
            let _g = leave_crate();
            let mut b = unsafe { Box::from_raw(p as *mut NestedW) };
            let wk = b.inner.take().unwrap();
            match crate::world::try_w() {
                Some(w) => w.wake_val(wk, b.owner, 4),
                None => wk.wake(),
            }
        },
        |p| {
            let _g = leave_crate();
            let me = unsafe { nw(p) };
            match crate::world::try_w() {
                Some(w) => w.wake_ref(me.inner.as_ref().unwrap(), me.owner, 4),
                None => me.inner.as_ref().unwrap().wake_by_ref(),
            }
        },
        |p| {
            let _g = leave_crate();
            let mut b = unsafe { Box::from_raw(p as *mut NestedW) };
            let wk = b.inner.take().unwrap();
            match crate::world::try_w() {
                Some(w) => w.drop_waker(wk, b.owner),
                None => drop(wk),
            }
        },
    );
    let data = Box::into_raw(Box::new(NestedW { owner, inner: Some(inner) })) as *const ();
    unsafe { Waker::from_raw(RawWaker::new(data, &VT)) }
}

/// A future type *without drop glue* (plain data); `Output = Tok`.
#[derive(Clone, Copy)]
pub struct PlainChild {
    pub id: u32,
}
impl Future for PlainChild {
    type Output = Tok;
    fn poll(self: Pin<&mut Self>, cx: &mut Context<'_>) -> Poll<Tok> {
        let addr = &*self as *const PlainChild as usize;
        let w = w();
        match w.fut_poll(self.id, addr, cx) {
            Some(_) => {
                let _g = leave_crate();
                Poll::Ready(Tok::new(ObjKind::Tok, self.id, 0))
            }
            None => Poll::Pending,
        }
    }
}

/// `!Unpin` future; `Output = Result<Tok, ErrTok>`.
pub struct TryChild(pub Child);
impl Future for TryChild {
    type Output = Result<Tok, ErrTok>;
    fn poll(self: Pin<&mut Self>, cx: &mut Context<'_>) -> Poll<Self::Output> {
        let addr = &self.0 as *const Child as usize;
        let id = self.0.id;
        let w = w();
        match w.fut_poll(id, addr, cx) {
            Some(fail) => {
                let _g = leave_crate();
                if fail {
                    Poll::Ready(Err(ErrTok(Tok::new(ObjKind::Err, id, 0))))
                } else {
                    Poll::Ready(Ok(Tok::new(ObjKind::Tok, id, 0)))
                }
            }
            None => Poll::Pending,
        }
    }
}

/// `!Unpin` future; `Output = ()` (for `for_each_concurrent`).
pub struct UnitChild(pub Child);
impl Future for UnitChild {
    type Output = ();
    fn poll(self: Pin<&mut Self>, cx: &mut Context<'_>) -> Poll<()> {
        let addr = &self.0 as *const Child as usize;
        let w = w();
        match w.fut_poll(self.0.id, addr, cx) {
            Some(_) => Poll::Ready(()),
            None => Poll::Pending,
        }
    }
}

/// Scripted source stream for the merges. `P = PhantomPinned` makes it `!Unpin`.
pub struct Src<P> {
    pub id: u32,
    _pin: P,
}
impl<P: Default> Src<P> {
    pub fn new(id: u32) -> Self {
        Src { id, _pin: P::default() }
    }
}
impl<P> Stream for Src<P> {
    type Item = Tok;
    fn poll_next(self: Pin<&mut Self>, cx: &mut Context<'_>) -> Poll<Option<Tok>> {
        let addr = &*self as *const Self as usize;
        let w = w();
        match w.src_poll(self.id, addr, cx) {
            Some(Some(seq)) => {
                let _g = leave_crate();
                Poll::Ready(Some(Tok::new(ObjKind::ItemTok, self.id, seq)))
            }
            Some(None) => Poll::Ready(None),
            None => Poll::Pending,
        }
    }
    fn size_hint(&self) -> (usize, Option<usize>) {
        match crate::world::try_w() {
            Some(w) => w.src_hint(self.id),
            None => (0, None),
        }
    }
}
impl crate::world::World {
    /// honest size hint of a scripted source: the items it will still yield
    pub fn src_hint(&self, id: u32) -> (usize, Option<usize>) {
        let ks = self.kids.borrow();
        let k = &ks[id as usize];
        let rest = &k.script[k.pos.min(k.script.len())..];
        if rest.contains(&crate::world::SrcStep::Infinite) {
            return (0, None);
        }
        let r = rest.iter().filter(|s| **s == crate::world::SrcStep::Item).count();
        match id % 3 {
            0 => (r, Some(r)),
            1 => (r / 2, Some(r + 1)),
            _ => (r, Some(r)),
        }
    }
}

impl<P> Drop for Src<P> {
    fn drop(&mut self) {
        let addr = self as *const Self as usize;
        if let Some(w) = crate::world::try_w() {
            w.kid_dropped(self.id, addr);
        }
    }
}

// ---------------------------------------------------------------------- upstreams

pub enum UpOut {
    Pending,
    Item(u32),
    Err,
    End,
}

impl crate::world::World {
    pub fn install_upstream(&self, script: Vec<UpStep>, hint_mode: u8, ready: u8, fail: u8, selfwake: u8) {
        let id = self.new_obj(ObjKind::Up, u32::MAX);
        *self.up.borrow_mut() = Some(Upstream {
            script,
            pos: 0,
            ended: false,
            waker: None,
            polled_in_call: None,
            pending_in_call: None,
            pulled: 0,
            errors: 0,
            hint_mode,
            obj: id,
            kid_ready_pct: ready,
            kid_fail_pct: fail,
            kid_selfwake_pct: selfwake,
        });
    }

    /// exactly one poll event per call from the crate
    pub fn up_poll(&self, cx: &mut Context<'_>) -> UpOut {
        let _g = leave_crate();
        crate::world::bump(&self.stats.up_polls);
        let call = self.call_no.get();
        let mut upb = self.up.borrow_mut();
        let up = upb.as_mut().expect("upstream installed");
        up.polled_in_call = Some(call);
        if up.ended {
            drop(upb);
            self.event(ev::UP_POLL, 3, 0);
            self.violation("C10", "upstream_polled_after_none", "upstream polled again after it returned None".into());
            return UpOut::End;
        }
        let step = up.script.get(up.pos).copied().unwrap_or(UpStep::End);
        match step {
            UpStep::Gap => {
                up.pending_in_call = Some(call);
                up.waker = Some(cx.waker().clone());
                drop(upb);
                self.event(ev::UP_POLL, 0, 0);
                UpOut::Pending
            }
            UpStep::End => {
                up.ended = true;
                drop(upb);
                self.event(ev::UP_POLL, 3, 0);
                UpOut::End
            }
            UpStep::Err => {
                up.pos += 1;
                up.errors += 1;
                drop(upb);
                self.event(ev::UP_POLL, 2, 0);
                UpOut::Err
            }
            UpStep::Item => {
                up.pos += 1;
                up.pulled += 1;
                let (rp, fp, sp) = (up.kid_ready_pct, up.kid_fail_pct, up.kid_selfwake_pct);
                drop(upb);
                let id = self.new_kid(false);
                {
                    let mut rng = self.rng.borrow_mut();
                    let mut ks = self.kids.borrow_mut();
                    let k = &mut ks[id as usize];
                    k.ready = rng.chance(rp as usize, 100);
                    k.fail = rng.chance(fp as usize, 100);
                    if rng.chance(sp as usize, 100) {
                        k.self_wake = rng.range(1, 3) as u32;
                    }
                    k.hold = rng.range(1, 3) as u8;
                    k.wake_on_ready = rng.chance(1, 8);
                }
                self.event(ev::UP_POLL, 1, id as u64);
                UpOut::Item(id)
            }
        }
    }

    /// honest size hint of the upstream: number of items (incl. errors) it will still produce
    pub fn up_hint(&self) -> (usize, Option<usize>) {
        let upb = self.up.borrow();
        let up = upb.as_ref().expect("upstream installed");
        let r = if up.ended {
            0
        } else {
            up.script[up.pos.min(up.script.len())..].iter().filter(|s| matches!(s, UpStep::Item | UpStep::Err)).count()
        };
        match up.hint_mode {
            0 => (r, Some(r)),
            1 => (r / 2, Some(r + 3)),
            2 => (r, None),
            3 => (0, Some(usize::MAX)),
            _ => (r.saturating_sub(1), Some(usize::MAX - 1)),
        }
    }

    /// environment: let the upstream proceed past its current gap
    pub fn up_open_gap(&self, wake: bool) -> bool {
        let wk = {
            let mut upb = self.up.borrow_mut();
            let Some(up) = upb.as_mut() else { return false };
            if up.ended || up.script.get(up.pos) != Some(&UpStep::Gap) {
                return false;
            }
            up.pos += 1;
            up.waker.take()
        };
        self.event(ev::OPEN_GAP, u64::MAX, wake as u64);
        if wake {
            if let Some(wk) = wk {
                // this is the task waker itself (the adapters pass their context through)
                let prev = self.ctx.get();
                self.ctx.set(crate::world::Ctx::InHarnessWake);
                wk.wake();
                self.ctx.set(prev);
            }
        }
        true
    }
}

pub struct UpFut(pub Ident);
impl Stream for UpFut {
    type Item = Child;
    fn poll_next(self: Pin<&mut Self>, cx: &mut Context<'_>) -> Poll<Option<Child>> {
        let w = w();
        match w.up_poll(cx) {
            UpOut::Pending => Poll::Pending,
            UpOut::Item(id) => {
                w.accept(id);
                Poll::Ready(Some(Child::new(id)))
            }
            UpOut::Err => unreachable!("plain upstream has no errors"),
            UpOut::End => Poll::Ready(None),
        }
    }
    fn size_hint(&self) -> (usize, Option<usize>) {
        w().up_hint()
    }
}

pub struct UpTry(pub Ident);
impl Stream for UpTry {
    type Item = Result<TryChild, ErrTok>;
    fn poll_next(self: Pin<&mut Self>, cx: &mut Context<'_>) -> Poll<Option<Self::Item>> {
        let w = w();
        match w.up_poll(cx) {
            UpOut::Pending => Poll::Pending,
            UpOut::Item(id) => {
                w.accept(id);
                Poll::Ready(Some(Ok(TryChild(Child::new(id)))))
            }
            UpOut::Err => {
                let _g = leave_crate();
                Poll::Ready(Some(Err(ErrTok(Tok::new(ObjKind::Err, u32::MAX, 0)))))
            }
            UpOut::End => Poll::Ready(None),
        }
    }
    fn size_hint(&self) -> (usize, Option<usize>) {
        w().up_hint()
    }
}

/// upstream of plain items for `for_each_concurrent`; the closure turns an item into a future
pub struct UpItem(pub Ident);
impl Stream for UpItem {
    type Item = u32;
    fn poll_next(self: Pin<&mut Self>, cx: &mut Context<'_>) -> Poll<Option<u32>> {
        let w = w();
        match w.up_poll(cx) {
            UpOut::Pending => Poll::Pending,
            UpOut::Item(id) => Poll::Ready(Some(id)),
            UpOut::Err => unreachable!(),
            UpOut::End => Poll::Ready(None),
        }
    }
    fn size_hint(&self) -> (usize, Option<usize>) {
        w().up_hint()
    }
}
