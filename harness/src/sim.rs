//! Random single-threaded simulation: one history = construct a subject, interleave environment
//! operations and polls, drain (or cancel), final checks.

use crate::alloc;
use crate::prng::{fnv, Rng, FNV0};
use crate::subject::{make, Ctor, How, Kind, Obs, Polled, Subject, Yield};
use crate::world::{self, bump, ev, Ctx, KState, SrcStep, UpStep, Violation, World};
use std::collections::{HashSet, VecDeque};
use std::panic::{catch_unwind, AssertUnwindSafe};
use std::rc::Rc;
use std::task::Context;

pub const CAPS: [usize; 22] = [0, 1, 2, 3, 4, 7, 8, 31, 32, 33, 60, 61, 62, 63, 64, 65, 96, 97, 122, 123, 200, 257];

#[derive(Clone)]
pub struct Params {
    pub prop: u8,
    pub seed: u64,
    pub max_ops: usize,
    pub small: bool,
    pub trace: bool,
    pub kind: Option<Kind>,
    pub scenario: Option<String>,
    /// replay / shrinking: stop the random phase after this many operations
    pub cut: Option<usize>,
    pub no_poison: bool,
    pub suppress_refused: bool,
    /// no scripted panics (tool jobs whose leak detector must stay meaningful)
    pub no_panics: bool,
}

/// what a history contained, for the per-property non-triviality rules
#[derive(Default, Clone, Debug)]
pub struct Flags {
    pub live_wake_while_pending: u32,
    pub pending_with_held: u32,
    pub slot_reuse: u32,
    pub out_of_order_completion: u32,
    pub groups_created: u32,
    pub groups_removed: u32,
    pub stale_wakes: u32,
    pub stale_wakes_after_reuse: u32,
    pub orphan_vtable_calls: u32,
    pub push_front_after_poll: u32,
    pub rebase_crossed: u32,
    pub cancelled_nontrivial: bool,
    pub join_nontrivial: bool,
    pub relocations_between_polls: u32,
    pub limit_reached: u32,
    pub refills: u32,
    pub up_gaps: u32,
    pub up_ended_in_flight: bool,
    pub up_errors: u32,
    pub merge_interleaved: bool,
    pub src_pushed_late: u32,
    pub redundant_wakes: u32,
    pub vacant_wakes: u32,
    pub quiet_phases: u32,
    pub refused: u32,
    pub hol_stall: bool,
    pub iter_panicked: bool,
    pub teardown_after_foreign_violation: bool,
    pub hint_after_up_end: u32,
    pub processed: u64,
    pub cycles: u32,
    pub budget_hits: u64,
    pub task_switches: u32,
    pub starve_rounds: u64,
    pub ctor_called: bool,
    pub continuation_polls: u32,
    pub scripted_panics: u32,
}

pub struct HistResult {
    pub kind: Kind,
    pub cap: usize,
    pub ops: usize,
    pub hash: u64,
    pub flags: Flags,
    pub violations: Vec<Violation>,
    pub raw_tail: Vec<world::Ev>,
    pub inconclusive: Option<String>,
    pub stats: Rc<World>,
    pub desc: String,
}

#[derive(Clone, Copy, PartialEq, Eq, Debug)]
pub enum Last {
    None,
    Pending,
    Item,
    Done,
}

pub struct Hist {
    pub w: Rc<World>,
    pub rng: Rng,
    pub kind: Kind,
    pub cap: usize,
    pub subj: Option<Box<dyn Subject>>,
    /// accepted and not yet yielded (collections, adapters, joins) / accepted and not ended (merges)
    pub held: Vec<u32>,
    /// grandchildren of nested children (held by an inner join_all, not by the subject itself)
    pub grand: Vec<u32>,
    pub order: VecDeque<u32>,
    pub yielded: HashSet<u32>,
    pub n_yielded: u64,
    pub n_accepted: u64,
    pub last: Last,
    pub last_start: u64,
    pub last_waker: usize,
    pub flags: Flags,
    pub hash: u64,
    pub ops: usize,
    pub aborted: Option<String>,
    pub alloc_base: u64,
    pub peak: usize,
    pub first_cap: usize,
    pub kids_seen: usize,
    pub src_next: Vec<u32>,
    pub hints: Vec<(u64, usize, Option<usize>)>,
    pub polled_since_reloc: bool,
    pub join_ids: Vec<u32>,
    pub join_ready_seen: bool,
    pub errs_from_up: u64,
    pub errs_yielded: u64,
    pub start: Option<usize>,
    pub prev_layout: Option<Vec<(usize, usize)>>,
    pub layouts_seen: HashSet<u64>,
    pub polls_done: u64,
    pub desc: String,
    /// mirror of the outgoing position counter of the ordered collections (coverage only)
    pub pos: usize,
    pub continuation_polls: u32,
    pub merge_last_src: Option<u32>,
    pub merge_switches: u32,
    pub cut: Option<usize>,
    /// twin run for C15: pushes the model predicts to be refused are not made
    pub suppress_refused: bool,
    /// children may panic in poll / in their destructor (C07 profile, join combinators)
    pub allow_panics: bool,
    /// `len()` as last reported by the subject
    pub last_len: Option<usize>,
    /// the input iterator of the constructor was scripted to panic
    pub iter_panics: bool,
}

pub fn msg_of(p: Box<dyn std::any::Any + Send>) -> String {
    if let Some(s) = p.downcast_ref::<&str>() {
        s.to_string()
    } else if let Some(s) = p.downcast_ref::<String>() {
        s.clone()
    } else {
        "<panic>".into()
    }
}

fn mix(a: u64, b: u64) -> u64 {
    let mut x = a ^ b.wrapping_mul(0x9E37_79B9_7F4A_7C15);
    crate::prng::splitmix(&mut x)
}

impl Hist {
    pub fn new(seed: u64, trace: bool) -> Hist {
        let w = World::new(seed, trace);
        world::install(Some(w.clone()));
        Hist {
            w,
            rng: Rng::new(seed),
            kind: Kind::Fub,
            cap: 0,
            subj: None,
            held: Vec::new(),
            grand: Vec::new(),
            order: VecDeque::new(),
            yielded: HashSet::new(),
            n_yielded: 0,
            n_accepted: 0,
            last: Last::None,
            last_start: 0,
            last_waker: 0,
            flags: Flags::default(),
            hash: FNV0,
            ops: 0,
            aborted: None,
            alloc_base: 0,
            peak: 0,
            first_cap: 32,
            kids_seen: 0,
            src_next: Vec::new(),
            hints: Vec::new(),
            polled_since_reloc: false,
            join_ids: Vec::new(),
            join_ready_seen: false,
            errs_from_up: 0,
            errs_yielded: 0,
            start: None,
            prev_layout: None,
            layouts_seen: HashSet::new(),
            polls_done: 0,
            desc: String::new(),
            pos: 0,
            continuation_polls: 0,
            merge_last_src: None,
            merge_switches: 0,
            cut: None,
            suppress_refused: false,
            allow_panics: false,
            last_len: None,
            iter_panics: false,
        }
    }

    pub fn h(&mut self, x: u64) {
        fnv(&mut self.hash, x);
    }

    fn with_ctx<R>(&self, c: Ctx, f: impl FnOnce() -> R) -> R {
        let prev = self.w.ctx.get();
        self.w.ctx.set(c);
        let r = f();
        self.w.ctx.set(prev);
        r
    }

    // ---------------------------------------------------------------- model helpers

    pub fn running(&self) -> usize {
        let ks = self.w.kids.borrow();
        self.held.iter().filter(|i| ks[**i as usize].state != KState::Done).count()
    }

    fn update_bounds(&mut self) {
        let n = self.held.len();
        if n > self.peak {
            self.peak = n;
        }
        self.w.model_len.set(n);
        if self.kind.is_unbounded() {
            let c = self.first_cap.max(1);
            let mut g = 3u64;
            let mut tot = c as u64;
            let mut cc = c;
            while cc < self.peak.max(1) * 2 {
                cc *= 2;
                g += 1;
                tot += cc as u64;
            }
            self.w.groups_bound.set(g);
            self.w.cap_total.set(tot);
        } else {
            self.w.groups_bound.set(1);
            self.w.cap_total.set(self.cap as u64);
        }
    }

    /// does the model say the subject accepts a push now
    fn model_accepts(&self) -> bool {
        match self.kind {
            Kind::Fub => self.held.len() < self.cap,
            Kind::Fob => self.running() < self.cap,
            Kind::MergeB => self.held.len() < self.cap,
            _ => true,
        }
    }

    // ---------------------------------------------------------------- construction

    pub fn new_fut(&mut self) -> u32 {
        let id = self.w.new_kid(false);
        let r = &mut self.rng;
        let mut mutual = false;
        let mut ks = self.w.kids.borrow_mut();
        let k = &mut ks[id as usize];
        match r.weighted(&[25, 45, 18, 4, 8]) {
            0 => k.ready = true,
            1 => {}
            2 => k.self_wake = r.range(1, 4) as u32,
            3 => k.wake_in_drop = true,
            _ => {
                if id > 0 {
                    k.wake_other = Some(r.below(id as usize) as u32);
                    mutual = r.chance(1, 3);
                }
            }
        }
        k.hold = *r.pick(&[1u8, 1, 1, 2, 3, 5]);
        k.wake_on_ready = r.chance(1, 8);
        k.other_first = r.chance(1, 2);
        if k.self_wake > 0 && id > 0 && r.chance(1, 4) {
            // self-waker that also pokes somebody else's (possibly stale) waker on every poll
            k.wake_other = Some(r.below(id as usize) as u32);
        }
        if self.allow_panics && r.chance(1, 10) {
            if self.w.poll_panics_only.get() || r.chance(1, 2) {
                k.panic_in_poll = r.range(1, 2) as u32;
            } else {
                k.panic_in_drop = true;
            }
        }
        if self.kind.is_try() {
            k.fail = r.chance(1, 5);
        }
        let nest = matches!(self.kind, Kind::Fub | Kind::Fu | Kind::Fob | Kind::Fo | Kind::JoinAll) && !self.w.plain_join.get() && !self.w.unit_join.get() && r.chance(1, 12);
        if mutual {
            // a pair that wake each other whenever they are polled (ping-pong, never themselves)
            if let Some(o) = k.wake_other {
                let other = &mut ks[o as usize];
                if other.nested.is_empty() && other.state != KState::Done && other.drops == 0 && other.parent.is_none() {
                    other.wake_other = Some(id);
                }
            }
        }
        drop(ks);
        if nest {
            // a nested child: join_all over 1..4 grandchildren
            let n = self.rng.range(1, 4);
            let mut g = Vec::new();
            for _ in 0..n {
                let gid = self.w.new_kid(false);
                let mut ks = self.w.kids.borrow_mut();
                let k = &mut ks[gid as usize];
                match self.rng.weighted(&[30, 50, 20]) {
                    0 => k.ready = true,
                    1 => {}
                    _ => k.self_wake = self.rng.range(1, 3) as u32,
                }
                k.hold = *self.rng.pick(&[1u8, 1, 2]);
                k.parent = Some(id);
                g.push(gid);
            }
            let mut ks = self.w.kids.borrow_mut();
            let k = &mut ks[id as usize];
            k.nested = g;
            k.ready = false;
            k.self_wake = 0;
            k.wake_other = None;
            k.wake_in_drop = false;
        }
        id
    }

    pub fn new_src(&mut self) -> u32 {
        let id = self.w.new_kid(true);
        let r = &mut self.rng;
        let n = r.range(0, 8);
        let mut script = Vec::new();
        for _ in 0..n {
            match r.weighted(&[60, 40]) {
                0 => script.push(SrcStep::Item),
                _ => script.push(SrcStep::Gap),
            }
        }
        script.push(SrcStep::End);
        let mut ks = self.w.kids.borrow_mut();
        let k = &mut ks[id as usize];
        k.script = script;
        k.hold = *r.pick(&[1u8, 1, 2, 3]);
        if r.chance(1, 6) {
            k.self_wake = r.range(1, 3) as u32;
        }
        if r.chance(1, 6) {
            k.wake_on_ready = true;
            if id > 0 && r.chance(2, 3) {
                k.wake_other = Some(r.below(id as usize) as u32);
            }
        }
        id
    }

    pub fn new_child(&mut self) -> u32 {
        if self.kind.is_merge() {
            self.new_src()
        } else {
            self.new_fut()
        }
    }

    fn accept(&mut self, id: u32, front: bool) {
        self.w.accept(id);
        let grand = self.w.kids.borrow()[id as usize].nested.clone();
        for g in grand {
            // accepted by the inner join_all; must not count against the subject's own limits
            let lim = self.w.limit.replace(None);
            let bl = self.w.backlog_limit.replace(None);
            self.w.accept(g);
            self.w.limit.set(lim);
            self.w.backlog_limit.set(bl);
            self.w.accepted_n.set(self.w.accepted_n.get() - 1);
            self.grand.push(g);
            self.n_accepted += 1;
        }
        self.held.push(id);
        if front {
            self.order.push_front(id);
        } else {
            self.order.push_back(id);
        }
        self.n_accepted += 1;
        while self.src_next.len() <= id as usize {
            self.src_next.push(0);
        }
        self.update_bounds();
    }

    /// Construct the subject (under catch_unwind). Returns false if the constructor panicked.
    pub fn construct(&mut self, kind: Kind, ctor: Ctor, cap: usize, n_init: usize, start: Option<usize>) -> bool {
        self.kind = kind;
        self.cap = cap;
        self.start = start;
        self.pos = start.unwrap_or(0);
        self.w.kid_kind_try.set(kind.is_try());
        self.w.discard_rule.set(!kind.is_join() && kind != Kind::ForEach);
        self.w.ordered_subject.set(kind.is_ordered());
        self.flags.ctor_called = true;
        let from_iter = matches!(ctor, Ctor::FromIter) || kind.is_join() || kind == Kind::MergeB;
        let ids: Vec<u32> = if from_iter { (0..n_init).map(|_| self.new_child()).collect() } else { Vec::new() };
        if from_iter {
            match kind {
                Kind::Fub | Kind::Fob | Kind::MergeB | Kind::JoinAll | Kind::TryJoinAll => self.cap = n_init,
                // (from_iter sizes the first group by the iterator's lower size hint, which may be 0)
                Kind::Fu | Kind::Fo => self.first_cap = 32,
                _ => {}
            }
        } else {
            self.first_cap = match ctor {
                Ctor::WithCap if cap > 0 => cap,
                _ => 32,
            };
        }
        if kind.is_adapter() {
            match kind {
                Kind::ForEach if cap == 0 => {}
                Kind::BufO | Kind::TryBufO => {
                    self.w.limit.set(Some(cap));
                    self.w.backlog_limit.set(Some(cap));
                }
                _ => self.w.limit.set(Some(cap)),
            }
        }
        self.h(kind as u64);
        self.h(cap as u64);
        self.h(n_init as u64);
        self.h(start.unwrap_or(7) as u64);
        self.desc = format!("{}(ctor={}, cap={}, init={}, start={:?})", kind.name(), ctor_name(&ctor), self.cap, n_init, start);
        *self.w.desc.borrow_mut() = self.desc.clone();
        let w = self.w.clone();
        let r = self.with_ctx(Ctx::InOther, || catch_unwind(AssertUnwindSafe(|| make(kind, ctor, cap, &ids, start))));
        drop(w);
        match r {
            Ok(s) => {
                self.subj = Some(s);
                for id in ids {
                    self.accept(id, false);
                }
                self.join_ids = self.held.clone();
                self.alloc_base = alloc::in_crate_allocs();
                self.kids_seen = self.w.kids.borrow().len();
                self.check_obs("construct");
                true
            }
            Err(_) if self.iter_panics => {
                // the input iterator panicked half-way (scripted) and the unwind was caught:
                // every future the iterator held or had already handed over must be gone
                self.flags.iter_panicked = true;
                for id in &ids {
                    let (d, plain) = {
                        let ks = self.w.kids.borrow();
                        (ks[*id as usize].drops, ks[*id as usize].plain)
                    };
                    // (inputs without drop glue cannot be observed)
                    if d == 0 && !plain {
                        self.w.violation("C06", "input_leaked_on_constructor_unwind", format!("{}: the input iterator panicked, kid {id} was never dropped", self.desc));
                    }
                }
                self.aborted = Some("scripted panic of the input iterator".into());
                false
            }
            Err(p) => {
                let m = msg_of(p);
                self.w.violation("C15", "constructor_panicked", format!("{} panicked: {m}", self.desc));
                self.aborted = Some("constructor panicked".into());
                false
            }
        }
    }

    // ---------------------------------------------------------------- observers (M-OBS, M-HINT)

    fn up_remaining(&self) -> usize {
        let upb = self.w.up.borrow();
        match upb.as_ref() {
            Some(up) if !up.ended => up.script[up.pos.min(up.script.len())..].iter().filter(|s| matches!(s, UpStep::Item | UpStep::Err)).count(),
            _ => 0,
        }
    }

    pub fn check_obs(&mut self, after: &str) {
        let Some(s) = self.subj.as_ref() else { return };
        // the observers take `&self`: a panic in one of them (arithmetic overflow on a huge but
        // honest upstream hint ...) leaves the subject intact, is caught here and judged
        let o: Obs = match self.with_ctx(Ctx::InOther, || std::panic::catch_unwind(std::panic::AssertUnwindSafe(|| s.obs()))) {
            Ok(o) => o,
            Err(_) => {
                self.w.violation("C17", "observer_panicked", format!("len / is_empty / size_hint / is_terminated panicked after {after} ({})", self.desc));
                if !self.kind.is_adapter() {
                    self.w.violation("C15", "observer_panicked", format!("len / is_empty / size_hint / is_terminated panicked after {after} ({})", self.desc));
                }
                return;
            }
        };
        self.last_len = o.len;
        let w = &self.w;
        // (the ordered variant counts parked outputs in len(), only running futures are capped)
        if self.kind == Kind::Fub {
            if let Some(l) = o.len {
                if l > self.cap {
                    w.violation("C15", "len_exceeds_capacity", format!("len() = {l} with capacity {} after {after} ({})", self.cap, self.desc));
                }
            }
        }
        let n = self.held.len();
        let kind = self.kind;
        // expected number of items still to come, for the size-hint check
        let remaining: Option<usize> = match kind {
            Kind::Fub | Kind::Fu | Kind::Fob | Kind::Fo => Some(n),
            Kind::BufU | Kind::BufO | Kind::TryBufU | Kind::TryBufO => Some(n + self.up_remaining()),
            Kind::MergeB | Kind::MergeU => {
                // items the live sources will still produce (none of them infinite)
                let ks = w.kids.borrow();
                let mut r = Some(0usize);
                for i in &self.held {
                    let k = &ks[*i as usize];
                    let rest = &k.script[k.pos.min(k.script.len())..];
                    if rest.contains(&SrcStep::Infinite) {
                        r = None;
                        break;
                    }
                    r = r.map(|x| x + rest.iter().filter(|s| **s == SrcStep::Item).count());
                }
                r
            }
            _ => None,
        };
        if let Some(len) = o.len {
            if len != n {
                w.violation("C15", "len", format!("after {after}: len() = {len}, model = {n}"));
            }
        }
        if let Some(e) = o.is_empty {
            if e != (n == 0) {
                w.violation("C15", "is_empty", format!("after {after}: is_empty() = {e}, model len = {n}"));
            }
        }
        if let Some(t) = o.term {
            let exp = match kind {
                Kind::ForEach => self.up_ended() && n == 0,
                _ => n == 0,
            };
            if t != exp {
                w.violation("C15", "is_terminated", format!("after {after}: is_terminated() = {t}, model says {exp}"));
            }
        }
        if let Some(c) = o.cap {
            if kind == Kind::Fub && c != self.cap {
                w.violation("C15", "capacity", format!("after {after}: capacity() = {c}, constructed with {}", self.cap));
            }
        }
        if kind == Kind::Fub && n > self.cap {
            w.violation("C15", "over_capacity", format!("after {after}: holds {n} > capacity {}", self.cap));
        }
        if let Some((lo, hi)) = o.hint {
            if kind.is_collection() && (lo, hi) != (n, Some(n)) {
                w.violation("C15", "size_hint", format!("after {after}: size_hint() = ({lo}, {hi:?}), model = {n}"));
            }
            if let Some(r) = remaining {
                // honest upstream hints are exact or looser, so the combined hint must bracket r
                if lo > r || hi.map_or(false, |h| h < r) {
                    w.violation(
                        "C17",
                        "size_hint_not_a_bound",
                        format!("after {after}: size_hint() = ({lo}, {hi:?}) but {r} more items will be yielded (in flight {n})"),
                    );
                }
                if kind.is_adapter() && self.up_ended() && n > 0 {
                    self.flags.hint_after_up_end += 1;
                }
                self.hints.push((self.n_yielded + self.errs_yielded, lo, hi));
            }
        }
    }

    fn up_ended(&self) -> bool {
        self.w.up.borrow().as_ref().map_or(true, |u| u.ended)
    }

    // ---------------------------------------------------------------- poll

    /// one collection poll with all the per-poll checks; returns what came out
    pub fn poll(&mut self, waker: usize) -> Last {
        if self.subj.is_none() {
            return Last::Done;
        }
        let w = self.w.clone();
        if waker != self.last_waker && self.polls_done > 0 {
            self.flags.task_switches += 1;
            bump(&w.stats.task_switches);
        }
        w.task.borrow_mut().current = waker;
        if self.kind.is_ordered() && self.pos >> (usize::BITS - 1) == 1 {
            self.flags.rebase_crossed += 1;
            self.pos ^= 1 << (usize::BITS - 1);
        }
        if self.join_ready_seen {
            self.continuation_polls += 1;
        }
        w.call_no.set(w.call_no.get() + 1);
        w.child_polls_in_call.set(0);
        w.pending_streak.set(0);
        w.finished_in_call.borrow_mut().clear();
        bump(&w.stats.polls);
        self.polls_done += 1;
        let start = w.clock.get();
        w.event(ev::POLL_START, waker as u64, 0);
        let budget_before = w.stats.points[5].get();
        let tw = w.task_waker(waker);
        let mut cx = Context::from_waker(&tw);
        let subj = self.subj.as_mut().unwrap();
        let prev = w.ctx.get();
        w.ctx.set(Ctx::InPoll);
        world::beacon_phase(1);
        let r = catch_unwind(AssertUnwindSafe(|| subj.poll(&mut cx)));
        world::beacon_phase(0);
        w.ctx.set(prev);
        self.flags.budget_hits += w.stats.points[5].get() - budget_before;
        self.last_start = start;
        self.last_waker = waker;
        self.polled_since_reloc = true;
        let r = match r {
            Ok(r) => r,
            Err(p) => {
                let m = msg_of(p);
                w.event(ev::POLL_END, 9, 0);
                if w.scripted_panic.replace(false) {
                    // a child panicked on purpose and the caller (we) caught the unwind: the
                    // combinator is still a live object and safe code may keep using it
                    self.flags.scripted_panics += 1;
                    self.last = Last::Pending;
                    return Last::Pending;
                }
                if self.join_ready_seen {
                    // polling a future again after completion may panic; that is allowed
                    self.aborted = Some(format!("poll after completion panicked: {m}"));
                } else {
                    w.violation("C02", "poll_panicked", format!("poll panicked on a legal history: {m}"));
                    self.aborted = Some("poll panicked".into());
                }
                // the subject is in an unknown state: never touch it again
                std::mem::forget(self.subj.take());
                self.last = Last::Done;
                return Last::Done;
            }
        };
        self.discover_new_kids();
        if self.kind.is_merge() {
            self.prune_ended_sources();
        }
        if self.kind == Kind::ForEach {
            // outputs are `()`: a future that finished has been consumed by the combinator
            let done: Vec<u32> = {
                let ks = w.kids.borrow();
                self.held.iter().copied().filter(|i| ks[*i as usize].state == KState::Done).collect()
            };
            for id in done {
                self.on_output(id, false);
            }
        }
        // M-FIN: every child that finished during this call is dropped by now
        {
            let fin = w.finished_in_call.borrow().clone();
            let ks = w.kids.borrow();
            for id in fin {
                if ks[id as usize].drops == 0 && !ks[id as usize].plain {
                    w.violation("C05", "not_released_promptly", format!("kid {id} finished during this call but is not dropped when it returns"));
                }
            }
        }
        let out = match r {
            Polled::Pending => {
                w.event(ev::POLL_END, 0, 0);
                bump(&w.stats.pendings);
                self.h(0xA0);
                self.on_pending();
                Last::Pending
            }
            Polled::Item(y) => {
                bump(&w.stats.items);
                self.on_item(y);
                Last::Item
            }
            Polled::Done => {
                w.event(ev::POLL_END, 2, 0);
                self.h(0xA2);
                self.on_done();
                Last::Done
            }
        };
        self.last = out;
        self.update_bounds();
        self.note_layout();
        self.check_obs("poll");
        out
    }

    /// kids created by the upstream during the last call, in pull order
    fn discover_new_kids(&mut self) {
        let n = self.w.kids.borrow().len();
        if !self.kind.is_adapter() {
            self.kids_seen = n;
        }
        for id in self.kids_seen..n {
            let acc = self.w.kids.borrow()[id].accepted;
            if acc {
                self.held.push(id as u32);
                self.order.push_back(id as u32);
                self.n_accepted += 1;
                if self.held.len() >= self.cap && self.cap > 0 {
                    self.flags.limit_reached += 1;
                }
                if self.n_yielded > 0 {
                    self.flags.refills += 1;
                }
            }
        }
        self.kids_seen = n;
        while self.src_next.len() < n {
            self.src_next.push(0);
        }
        let upb = self.w.up.borrow();
        if let Some(up) = upb.as_ref() {
            self.errs_from_up = up.errors;
            if up.ended && !self.held.is_empty() {
                self.flags.up_ended_in_flight = true;
            }
        }
    }

    fn model_empty(&self) -> bool {
        match self.kind {
            k if k.is_adapter() => self.held.is_empty() && self.up_ended() && self.errs_yielded >= self.errs_from_up,
            _ => self.held.is_empty(),
        }
    }

    fn on_pending(&mut self) {
        let w = self.w.clone();
        if !self.held.is_empty() {
            self.flags.pending_with_held += 1;
        }
        if matches!(self.kind, Kind::BufO | Kind::TryBufO) && !self.flags.hol_stall && self.held.len() >= self.cap.max(2) {
            // head of line unfinished while somebody behind it has finished, at the limit
            let ks = w.kids.borrow();
            let head_open = ks[self.held[0] as usize].state != KState::Done;
            if head_open && self.held.iter().skip(1).any(|i| ks[*i as usize].state == KState::Done) {
                self.flags.hol_stall = true;
            }
        }
        if self.model_empty() && !(self.kind.is_join() && self.join_ready_seen) {
            let (p, rule) = match self.kind {
                k if k.is_merge() => ("C11", "pending_while_all_sources_ended"),
                k if k.is_adapter() => ("C10", "pending_when_done"),
                k if k.is_join() => ("C07", "pending_with_all_inputs_resolved"),
                _ => ("C02", "pending_while_empty"),
            };
            w.violation(p, rule, format!("poll returned Pending although nothing is held ({})", self.desc));
        }
        // W1
        self.check_w("W1_pending_without_task_wake");
        // C09 work conservation
        if self.kind.is_adapter() && self.cap > 0 {
            let call = w.call_no.get();
            let upb = w.up.borrow();
            let up = upb.as_ref().unwrap();
            let in_flight = self.held.len();
            let ok = in_flight >= self.cap || up.ended || up.pending_in_call == Some(call);
            if !ok {
                drop(upb);
                w.violation(
                    "C09",
                    "not_work_conserving",
                    format!("Pending with {in_flight} < {} items in flight, upstream neither ended nor pending in this call", self.cap),
                );
            }
        }
        if self.kind == Kind::ForEach && self.cap == 0 {
            let call = w.call_no.get();
            let upb = w.up.borrow();
            let up = upb.as_ref().unwrap();
            if !(up.ended || up.pending_in_call == Some(call)) {
                drop(upb);
                w.violation("C10", "never_pulls", "for_each_concurrent(0) returned Pending without the upstream being pending or ended".into());
            }
        }
    }

    /// W1 / W2: some obligated child un-polled ⇒ the most recent poll's task waker was invoked
    /// since that poll began
    pub fn check_w(&mut self, rule: &'static str) {
        if self.subj.is_none() {
            return;
        }
        let w = &self.w;
        let call = w.call_no.get();
        let obligated = {
            let ks = w.kids.borrow();
            self.held.iter().copied().find(|i| {
                let k = &ks[*i as usize];
                k.live() && k.needs_poll && (k.accepted_call <= call || k.woken)
            })
        };
        if let Some(id) = obligated {
            if !w.task_invoked_since(self.last_waker, self.last_start) {
                if rule.starts_with("W1") && w.child_polls_in_call.get() > 0 {
                    // the call did poll children but stopped before the obligated one, and did
                    // not wake its task: "when it stops early it has woken its task" (C13)
                    w.violation(
                        "C13",
                        "stopped_early_without_task_wake",
                        format!("the call polled {} children, left kid {id} (pushed/woken) un-polled, returned Pending and did not wake its task", w.child_polls_in_call.get()),
                    );
                }
                if rule.starts_with("W1") && self.kind.is_merge() && w.kids.borrow()[id as usize].credit_item {
                    // a source that has just yielded is re-armed, not pending
                    w.violation(
                        "C11",
                        "pending_while_source_ready",
                        format!("merge returned Pending (task not woken) although source {id} yielded an item and was never polled again"),
                    );
                }
                w.violation(
                    "C01",
                    rule,
                    format!(
                        "kid {id} is pushed/woken and un-polled, the last poll (task waker {}) returned Pending, and that waker was not invoked since the poll began",
                        self.last_waker
                    ),
                );
            }
        }
    }

    fn on_item(&mut self, y: Yield) {
        let w = self.w.clone();
        match y {
            Yield::Tok(t) => {
                if !t.valid() {
                    w.violation("C07", "garbage_item", "stream yielded a token that was never produced".into());
                    std::mem::forget(t);
                    return;
                }
                let (id, seq, tid) = (t.producer, t.seq, t.id);
                w.handed_out.borrow_mut().insert(tid);
                w.event(ev::POLL_END, 1, id as u64);
                self.h(0xA1);
                self.h(id as u64);
                if self.kind.is_merge() {
                    self.on_merge_item(id, seq);
                } else {
                    self.on_output(id, false);
                }
                let _ = tid;
                drop(t);
            }
            Yield::Err(e) => {
                let id = e.0.producer;
                w.event(ev::POLL_END, 3, id as u64);
                self.h(0xA3);
                self.h(id as u64);
                if !e.0.valid() {
                    w.violation("C07", "garbage_error", "yielded an error token that was never produced".into());
                    std::mem::forget(e);
                    return;
                }
                if id == u32::MAX {
                    // upstream error, forwarded
                    self.errs_yielded += 1;
                    self.flags.up_errors += 1;
                    if self.errs_yielded > self.errs_from_up {
                        w.violation("C10", "error_duplicated", "more upstream errors forwarded than upstream produced".into());
                    }
                } else {
                    let fail = w.kids.borrow()[id as usize].fail;
                    if !fail {
                        w.violation("C07", "error_from_successful_input", format!("error attributed to kid {id} which did not fail"));
                    }
                    if self.kind == Kind::TryJoinAll {
                        self.on_join_err(id);
                    } else {
                        self.on_output(id, true);
                    }
                }
                drop(e);
            }
            Yield::Vec(v) => {
                w.event(ev::POLL_END, 4, v.len() as u64);
                self.h(0xA4);
                self.on_join_vec(v);
            }
            Yield::Units(n) => {
                w.event(ev::POLL_END, 4, n as u64);
                self.h(0xA5);
                self.on_join_units(n);
            }
            Yield::Unit => {}
        }
    }

    /// an output (or failure) of future `id` came out of a collection / adapter
    fn on_output(&mut self, id: u32, _err: bool) {
        let w = self.w.clone();
        let (state, accepted) = {
            let ks = w.kids.borrow();
            match ks.get(id as usize) {
                Some(k) => (k.state, k.accepted),
                None => {
                    drop(ks);
                    w.violation("C02", "unknown_output", format!("output of unknown kid {id}"));
                    return;
                }
            }
        };
        if !accepted || state != KState::Done {
            w.violation("C02", "output_not_produced", format!("yielded an output of kid {id} which was not accepted / has not finished"));
        }
        if !self.yielded.insert(id) {
            w.violation("C02", "yielded_twice", format!("output of kid {id} yielded twice"));
            return;
        }
        self.n_yielded += 1;
        w.yielded_n.set(w.yielded_n.get() + 1);
        if let Some(p) = self.held.iter().position(|x| *x == id) {
            if p != 0 {
                self.flags.out_of_order_completion += 1;
            }
            self.held.remove(p);
        } else {
            w.violation("C02", "output_not_held", format!("kid {id} yielded but the model does not hold it"));
        }
        if self.kind.is_ordered() {
            match self.order.front().copied() {
                Some(f) if f == id => {
                    self.order.pop_front();
                }
                Some(f) => {
                    w.violation("C04", "out_of_queue_order", format!("yielded kid {id}, queue order says {f} is next ({})", self.desc));
                    if let Some(p) = self.order.iter().position(|x| *x == id) {
                        self.order.remove(p);
                    }
                }
                None => {}
            }
        } else if let Some(p) = self.order.iter().position(|x| *x == id) {
            self.order.remove(p);
        }
        self.flags.processed += 1;
        self.pos = self.pos.wrapping_add(1);
    }

    fn on_merge_item(&mut self, src: u32, seq: u32) {
        let w = self.w.clone();
        if src as usize >= self.src_next.len() || !w.kids.borrow()[src as usize].accepted {
            w.violation("C11", "item_from_unknown_source", format!("item ({src},{seq}) from a source the merge does not hold"));
            return;
        }
        let exp = self.src_next[src as usize];
        if seq != exp {
            w.violation("C11", "per_source_order", format!("source {src}: yielded seq {seq}, expected {exp}"));
        }
        self.src_next[src as usize] = seq.max(exp) + 1;
        if self.merge_last_src.map_or(false, |l| l != src) {
            self.merge_switches += 1;
            if self.merge_switches >= 2 && seq >= 1 {
                self.flags.merge_interleaved = true;
            }
        }
        self.merge_last_src = Some(src);
        self.n_yielded += 1;
        self.flags.processed += 1;
    }

    fn on_done(&mut self) {
        let w = self.w.clone();
        if self.kind.is_stream() {
            // a stream that has just said "no more items" cannot promise more items
            if let Some(s) = self.subj.as_ref() {
                let o = self.with_ctx(Ctx::InOther, || std::panic::catch_unwind(std::panic::AssertUnwindSafe(|| s.obs()))).unwrap_or_default();
                if let Some((lo, _)) = o.hint {
                    if lo > 0 {
                        w.violation("C17", "lower_bound_after_end", format!("the stream returned None and reports size_hint().0 = {lo} ({})", self.desc));
                    }
                }
            }
        }
        if self.kind.is_merge() {
            // sources that ended are dropped by the merge; remove them from the model
            self.prune_ended_sources();
        }
        if !self.model_empty() && self.kind.is_ordered() && !self.order.is_empty() {
            w.violation(
                "C04",
                "ended_before_queue_drained",
                format!("ordered stream ended while {} queued futures/outputs were never yielded: not the behaviour of a queue ({})", self.order.len(), self.desc),
            );
        }
        if !self.model_empty() {
            let (p, rule) = match self.kind {
                k if k.is_merge() => ("C11", "none_while_sources_live"),
                k if k.is_adapter() => ("C10", "ended_early"),
                _ => ("C02", "none_while_nonempty"),
            };
            w.violation(p, rule, format!("returned None/Ready while the model still holds {} ({})", self.held.len(), self.desc));
        }
    }

    pub fn prune_ended_sources(&mut self) {
        let ks = self.w.kids.borrow();
        self.held.retain(|i| ks[*i as usize].state != KState::Done);
        let held = &self.held;
        self.order.retain(|i| held.contains(i));
    }

    // ---------------------------------------------------------------- joins (M-JOIN)

    fn on_join_vec(&mut self, v: Vec<crate::world::Tok>) {
        let w = self.w.clone();
        if v.iter().any(|t| !t.valid()) {
            let bad = v.iter().position(|t| !t.valid()).unwrap();
            w.violation(
                "C07",
                "element_never_produced",
                format!("{}: returned Vec of {} elements, element {bad} was never written by any input", self.desc, v.len()),
            );
            std::mem::forget(v);
            return;
        }
        if !self.join_ready_seen {
            self.join_ready_seen = true;
            let ids = self.join_ids.clone();
            if v.len() != ids.len() {
                w.violation("C07", "wrong_length", format!("join of {} inputs resolved to {} elements", ids.len(), v.len()));
            }
            let ks = w.kids.borrow();
            let mut not_done = None;
            for id in &ids {
                if ks[*id as usize].state != KState::Done {
                    not_done = Some(*id);
                }
            }
            drop(ks);
            if let Some(id) = not_done {
                w.violation("C07", "resolved_before_all_inputs", format!("resolved while input kid {id} has not finished"));
            }
            for (i, t) in v.iter().enumerate() {
                if let Some(id) = ids.get(i) {
                    if t.producer != *id {
                        w.violation("C04", "index_map", format!("element {i} is the output of kid {}, input {i} was kid {id}", t.producer));
                    }
                }
                if !self.yielded.insert(t.producer) {
                    w.violation("C02", "yielded_twice", format!("output of kid {} handed out twice", t.producer));
                }
            }
            self.n_yielded += v.len() as u64;
            self.held.clear();
            self.order.clear();
        } else {
            // a poll after completion may return anything made of input values not yet handed out
            for t in v.iter() {
                let known = (t.producer as usize) < w.kids.borrow().len();
                if !known {
                    w.violation("C07", "element_never_produced", format!("element from unknown producer {}", t.producer));
                } else if !self.yielded.insert(t.producer) {
                    w.violation("C07", "value_handed_out_twice", format!("output of kid {} handed out again after completion", t.producer));
                }
            }
        }
        drop(v);
    }

    /// join of inputs with a zero-sized output: the values carry nothing, the count does
    fn on_join_units(&mut self, n: usize) {
        let w = self.w.clone();
        let ids = self.join_ids.clone();
        if !self.join_ready_seen {
            self.join_ready_seen = true;
            if n != ids.len() {
                w.violation("C07", "wrong_length", format!("join of {} inputs resolved to {n} elements", ids.len()));
            }
            let not_done = ids.iter().copied().find(|id| w.kids.borrow()[*id as usize].state != KState::Done);
            if let Some(id) = not_done {
                w.violation("C07", "resolved_before_all_inputs", format!("resolved while input kid {id} has not finished"));
            }
            for id in &ids {
                self.yielded.insert(*id);
            }
            self.n_yielded += ids.len() as u64;
            self.held.clear();
            self.order.clear();
        } else if n > 0 {
            w.violation("C07", "value_handed_out_twice", format!("{n} more outputs handed out after completion, all {} were handed out before", ids.len()));
        }
    }

    fn on_join_err(&mut self, id: u32) {
        let w = self.w.clone();
        let st = w.kids.borrow()[id as usize].state;
        if st != KState::Done {
            w.violation("C07", "error_of_unfinished_input", format!("Err attributed to kid {id} which has not finished"));
        }
        self.join_ready_seen = true;
        self.flags.join_nontrivial = true;
        // the remaining inputs stay inside until the combinator is dropped
    }

    // ---------------------------------------------------------------- layout (coverage only)

    fn note_layout(&mut self) {
        let Some(s) = self.subj.as_ref() else { return };
        if let Some((cursor, groups)) = s.layout() {
            let mut h = FNV0;
            fnv(&mut h, cursor as u64);
            for (c, l) in &groups {
                fnv(&mut h, *c as u64);
                fnv(&mut h, (*l == 0) as u64);
            }
            self.layouts_seen.insert(h);
            if let Some(prev) = &self.prev_layout {
                if groups.len() > prev.len() {
                    self.flags.groups_created += 1;
                } else if groups.len() < prev.len() {
                    self.flags.groups_removed += 1;
                } else if groups.iter().map(|g| g.0).ne(prev.iter().map(|g| g.0)) {
                    self.flags.groups_created += 1;
                    self.flags.groups_removed += 1;
                }
            }
            self.prev_layout = Some(groups);
        }
    }

    // ---------------------------------------------------------------- environment operations

    pub fn op_push(&mut self, how: How) {
        if self.subj.is_none() {
            return;
        }
        let id = self.new_child();
        self.push_id(id, how);
    }

    /// `extend` with a batch of children (ordered collections). The bounded one mostly gets
    /// batches that fit; now and then one to three more than fit: `extend` then panics like
    /// `push_back` on a full queue, after having accepted what fits, and the panic must not
    /// disturb what is held (twin run: the same history with only the fitting part offered).
    pub fn op_extend(&mut self, n: usize) {
        if self.subj.is_none() || !matches!(self.kind, Kind::Fo | Kind::Fob) {
            return;
        }
        let mut n = n;
        let mut over = 0;
        if self.kind == Kind::Fob {
            let room = self.cap.saturating_sub(self.running());
            n = n.min(room);
            if self.rng.chance(1, 6) {
                // everything that fits, and one to three more
                n = room;
                over = self.rng.range(1, 3);
            }
        }
        if n + over == 0 {
            return;
        }
        let mut ids: Vec<u32> = (0..n + over).map(|_| self.new_child()).collect();
        let twin = over > 0 && self.suppress_refused;
        if twin {
            for id in ids.split_off(n) {
                drop(crate::kids::Child::new(id));
            }
            self.flags.refused += 1;
        }
        let expect_panic = over > 0 && !twin;
        let w = self.w.clone();
        let subj = self.subj.as_mut().unwrap();
        let prev = w.ctx.get();
        w.ctx.set(Ctx::InOther);
        let allocs_before = alloc::in_crate_allocs();
        world::beacon_phase(2);
        let r = catch_unwind(AssertUnwindSafe(|| subj.extend(&ids)));
        world::beacon_phase(0);
        w.ctx.set(prev);
        if r.is_err() {
            // the panic machinery allocates (message, payload); that is not the crate's doing
            self.alloc_base += alloc::in_crate_allocs() - allocs_before;
        }
        if n > 0 {
            self.h(0xB8);
            self.h(n as u64);
        }
        match (r, expect_panic) {
            (Ok(_), false) => {
                for id in ids {
                    w.event(ev::PUSH, id as u64, 9);
                    self.accept(id, false);
                    bump(&w.stats.pushes);
                }
                if self.n_yielded > 0 && n > 0 {
                    self.flags.refills += 1;
                }
                self.note_layout();
            }
            (Err(_), true) => {
                // what fitted is in, the rest went down with the iterator
                self.flags.refused += 1;
                bump(&w.stats.refused);
                for (i, id) in ids.iter().enumerate() {
                    if i < n {
                        w.event(ev::PUSH, *id as u64, 9);
                        self.accept(*id, false);
                        bump(&w.stats.pushes);
                    } else if w.kids.borrow()[*id as usize].drops != 1 {
                        w.violation("C06", "refused_child_drop_count", format!("kid {id} did not fit into the extend, its drop count is not 1 after the unwind"));
                    }
                }
                self.note_layout();
            }
            (Ok(_), true) => {
                w.violation("C15", "extend_accepted_beyond_capacity", format!("extend of {} children returned normally although only {n} fit ({})", n + over, self.desc));
                self.aborted = Some("extend beyond capacity".into());
                std::mem::forget(self.subj.take());
                return;
            }
            (Err(p), false) => {
                w.violation("C15", "extend_panicked_with_room", format!("extend of {n} children panicked although there is room: {}", msg_of(p)));
                self.aborted = Some("extend panicked".into());
                std::mem::forget(self.subj.take());
                return;
            }
        }
        self.check_obs("extend");
    }

    pub fn push_id(&mut self, id: u32, how: How) {
        let w = self.w.clone();
        let accepts = self.model_accepts();
        let front = matches!(how, How::Front | How::TryFront) && matches!(self.kind, Kind::Fob | Kind::Fo);
        let subj = self.subj.as_mut().unwrap();
        let prev = w.ctx.get();
        w.ctx.set(Ctx::InOther);
        let allocs_before = alloc::in_crate_allocs();
        if self.suppress_refused && !accepts {
            // twin run: the push the model says will be refused is not made at all
            w.ctx.set(prev);
            drop(crate::kids::Child::new(id));
            self.flags.refused += 1;
            return;
        }
        // what the subject itself reported just before (self-consistency, needs no model)
        let own_full = self.kind == Kind::Fub && self.last_len.map_or(false, |l| l >= self.cap) && self.cap > 0;
        world::beacon_phase(2);
        let r = catch_unwind(AssertUnwindSafe(|| subj.push(how, id)));
        world::beacon_phase(0);
        w.ctx.set(prev);
        if r.is_err() {
            // the panic machinery allocates (message, payload); that is not the crate's doing
            self.alloc_base += alloc::in_crate_allocs() - allocs_before;
        }
        bump(&w.stats.pushes);
        match r {
            Ok(Ok(())) => {
                w.event(ev::PUSH, id as u64, how as u64);
                // (refused pushes are not part of the history hash: a history and its twin
                // without them must hash alike if a refusal really leaves no trace)
                self.h(0xB0 + how as u64);
                self.h(1);
                if !accepts {
                    w.violation("C15", "accepted_when_full", format!("push of kid {id} accepted although the model says the subject is full ({})", self.desc));
                }
                if own_full {
                    w.violation("C15", "accepted_at_reported_capacity", format!("push of kid {id} accepted although the subject had just reported len() = {:?} with capacity {} ({})", self.last_len, self.cap, self.desc));
                }
                self.accept(id, front);
                if front {
                    self.pos = self.pos.wrapping_sub(1);
                    if self.polls_done > 0 {
                        self.flags.push_front_after_poll += 1;
                    }
                }
                if self.n_yielded > 0 {
                    self.flags.refills += 1;
                    if self.kind.is_merge() {
                        self.flags.src_pushed_late += 1;
                    }
                }
                if let Some(l) = self.prev_layout.as_ref() {
                    let _ = l;
                }
                self.note_layout();
            }
            Ok(Err(back)) => {
                w.event(ev::PUSH, id as u64, how as u64 | 1 << 8);
                bump(&w.stats.refused);
                self.flags.refused += 1;
                if back != id {
                    w.violation("C15", "refusal_returned_other", format!("try_push of kid {id} was refused but returned kid {back}"));
                }
                if accepts {
                    w.violation("C15", "refused_with_room", format!("try_push of kid {id} refused although the model has room ({}, held {})", self.desc, self.held.len()));
                }
                if w.kids.borrow()[id as usize].drops != 1 {
                    // the harness dropped the returned child right away
                    w.violation("C06", "refused_child_drop_count", format!("refused kid {id} drop count != 1 after the harness dropped it"));
                }
            }
            Err(p) => {
                let m = msg_of(p);
                w.event(ev::PUSH, id as u64, how as u64 | 2 << 8);
                self.flags.refused += 1;
                if accepts {
                    w.violation("C15", "push_panicked_with_room", format!("push of kid {id} panicked although there is room: {m}"));
                    if self.kind.is_merge() {
                        // a source that cannot be added is a source whose items are never merged
                        w.violation("C11", "source_refused", format!("push of source {id} panicked although there is room: {m} ({})", self.desc));
                    } else if self.kind.is_unbounded() {
                        w.violation("C02", "push_panicked", format!("the unbounded collection refused kid {id}: {m} ({})", self.desc));
                    }
                    self.aborted = Some("push panicked".into());
                    std::mem::forget(self.subj.take());
                    return;
                }
                if w.kids.borrow()[id as usize].drops != 1 {
                    w.violation("C06", "panicking_push_leaked_argument", format!("kid {id} passed to a panicking push was not dropped exactly once"));
                }
            }
        }
        self.check_obs("push");
    }

    /// complete one pending child (future: next poll is Ready; source: open its gap)
    pub fn op_complete(&mut self, id: u32, wake: bool) {
        let w = self.w.clone();
        let grand = w.kids.borrow()[id as usize].nested.clone();
        if !grand.is_empty() {
            for g in grand {
                if w.kids.borrow()[g as usize].state != KState::Done {
                    self.op_complete(g, wake);
                }
            }
            return;
        }
        {
            let mut ks = w.kids.borrow_mut();
            let k = &mut ks[id as usize];
            if k.is_src {
                if k.script.get(k.pos) == Some(&SrcStep::Gap) {
                    k.pos += 1;
                }
            } else {
                k.ready = true;
            }
        }
        w.event(ev::COMPLETE, id as u64, wake as u64);
        self.h(0xC0);
        self.h(id as u64);
        if wake {
            self.op_wake(id, 0, 0);
        }
    }

    pub fn op_wake(&mut self, id: u32, how: u8, pick: usize) {
        let w = self.w.clone();
        let (live, polled_since) = {
            let ks = w.kids.borrow();
            let k = &ks[id as usize];
            (k.live(), k.needs_poll)
        };
        let key = w.kids.borrow()[id as usize].slot_key;
        if !w.wake_kid(id, how, pick) {
            return;
        }
        self.h(0xD0 + how as u64);
        self.h(id as u64);
        if how == 3 {
            return;
        }
        if live {
            if self.last == Last::Pending && self.subj.is_some() {
                self.flags.live_wake_while_pending += 1;
            }
            if polled_since {
                self.flags.redundant_wakes += 1;
            }
        } else {
            self.flags.stale_wakes += 1;
            if self.subj.is_none() {
                self.flags.orphan_vtable_calls += 1;
            }
            if let Some(key) = key {
                let owner = w.slot_owner.borrow().get(&key).copied();
                if owner.map_or(false, |o| o != id) {
                    self.flags.stale_wakes_after_reuse += 1;
                } else {
                    self.flags.vacant_wakes += 1;
                }
            }
        }
        // W2
        if self.last == Last::Pending {
            self.check_w("W2_wake_without_task_wake");
        }
    }

    pub fn op_relocate(&mut self) {
        if let Some(s) = self.subj.take() {
            self.w.event(ev::RELOCATE, 0, 0);
            bump(&self.w.stats.relocations);
            self.h(0xE0);
            self.subj = Some(self.with_ctx(Ctx::InOther, || s.relocate()));
            if self.polled_since_reloc && !self.held.is_empty() {
                self.flags.relocations_between_polls += 1;
            }
            self.polled_since_reloc = false;
        }
    }

    pub fn pick_held(&mut self, pred: impl Fn(&crate::world::Kid) -> bool) -> Option<u32> {
        let ks = self.w.kids.borrow();
        let c: Vec<u32> = self.held.iter().chain(self.grand.iter()).copied().filter(|i| pred(&ks[*i as usize])).collect();
        drop(ks);
        if c.is_empty() {
            None
        } else {
            Some(c[self.rng.below(c.len())])
        }
    }

    pub fn pick_finished_with_waker(&mut self) -> Option<u32> {
        let ks = self.w.kids.borrow();
        let c: Vec<u32> = (0..ks.len() as u32).filter(|i| !ks[*i as usize].live() && !ks[*i as usize].wakers.is_empty()).collect();
        drop(ks);
        if c.is_empty() {
            None
        } else {
            Some(c[self.rng.below(c.len())])
        }
    }

    /// M-IDLE quiet phase
    pub fn op_quiet(&mut self) {
        if self.subj.is_none() || self.last == Last::Done {
            return;
        }
        let w = self.w.clone();
        let passive = {
            let ks = w.kids.borrow();
            self.held.iter().all(|i| {
                let k = &ks[*i as usize];
                if k.is_src {
                    k.self_wake == 0 && k.wake_other.is_none() && k.script.get(k.pos) == Some(&SrcStep::Gap) && k.state != KState::Fresh
                } else {
                    // an output parked out of turn is not a child any more
                    k.state == KState::Done || (!k.ready && k.self_wake == 0 && k.wake_other.is_none())
                }
            })
        };
        let passive = passive && {
            let ks = w.kids.borrow();
            self.grand.iter().all(|i| {
                let k = &ks[*i as usize];
                k.state == KState::Done || k.drops > 0 || (!k.ready && k.self_wake == 0 && k.wake_other.is_none())
            })
        };
        // (an adapter that holds as many items as its limit allows may not pull: a ready
        // upstream cannot be the reason for any activity then)
        let at_limit = self.kind.is_adapter() && self.cap > 0 && self.held.len() >= self.cap;
        let up_passive = match w.up.borrow().as_ref() {
            Some(up) => at_limit || up.ended || up.script.get(up.pos) == Some(&UpStep::Gap),
            None => true,
        };
        let held = self.running();
        if !passive || !up_passive || held == 0 {
            return;
        }
        w.event(ev::QUIET, held as u64, 0);
        bump(&w.stats.quiet_phases);
        self.flags.quiet_phases += 1;
        self.h(0xF0);
        let fair = w.fair_enabled.replace(false);
        let bound = held + 2;
        let mut pendings = 0;
        let mut reached = false;
        let mut wk = self.last_waker;
        // an executor may hand out a fresh waker for every poll
        let rotate = self.rng.chance(1, 3);
        let mut guard = 0;
        while pendings < bound && guard < 4 * bound + 16 {
            guard += 1;
            if rotate {
                wk = (wk + 1) % 3;
            }
            match self.poll(wk) {
                Last::Pending => {
                    pendings += 1;
                    if !w.task_invoked_since(wk, self.last_start) {
                        reached = true;
                        break;
                    }
                }
                Last::Done => break,
                _ => {}
            }
            if w.has_violation() || self.subj.is_none() {
                w.fair_enabled.set(fair);
                return;
            }
        }
        if !reached && self.last == Last::Pending {
            w.violation(
                "C14",
                "quiet_not_reached",
                format!("{held} passive pending children, nobody wakes anything: {pendings} polls all had their task waker invoked (bound held+2 = {bound})"),
            );
        }
        if reached {
            for _ in 0..2 {
                if rotate {
                    wk = (wk + 1) % 3;
                }
                if self.poll(wk) == Last::Pending && w.task_invoked_since(wk, self.last_start) {
                    w.violation("C14", "spurious_task_wake_when_idle", "idle collection woke its task again although nothing happened".into());
                }
            }
        }
        w.fair_enabled.set(fair);
    }

    // ---------------------------------------------------------------- end of history

    /// complete and wake everything, run the honest executor until it sleeps or the stream ends
    pub fn drain(&mut self) {
        if self.subj.is_none() {
            return;
        }
        let w = self.w.clone();
        w.fair_enabled.set(false);
        // futures the upstream hands out from now on are ready at once
        if let Some(up) = w.up.borrow_mut().as_mut() {
            up.kid_ready_pct = 100;
        }
        let max_rounds = 64 + 2 * self.up_remaining() as u64 + self.held.len() as u64;
        let mut rounds = 0u64;
        loop {
            rounds += 1;
            // complete everything currently held and wake it
            let ids: Vec<u32> = self.held.iter().chain(self.grand.iter()).copied().collect();
            for id in ids {
                let needs = {
                    let ks = w.kids.borrow();
                    let k = &ks[id as usize];
                    k.state != KState::Done && k.drops == 0 && k.nested.is_empty()
                };
                if needs {
                    {
                        let mut ks = w.kids.borrow_mut();
                        let k = &mut ks[id as usize];
                        // nobody keeps anybody busy any more (a poke at a stale waker may alias
                        // the poker's own slot and act as a perpetual self-wake)
                        k.wake_other = None;
                        if k.is_src {
                            k.self_wake = 0;
                            // drop the remaining gaps
                            while k.script.get(k.pos) == Some(&SrcStep::Gap) {
                                k.pos += 1;
                            }
                            if k.script.get(k.pos) == Some(&SrcStep::Infinite) {
                                k.script[k.pos] = SrcStep::End;
                            }
                        } else {
                            k.ready = true;
                            k.self_wake = 0;
                        }
                    }
                    w.wake_kid(id, 0, 0);
                }
            }
            while w.up_open_gap(true) {}
            // honest executor
            let mut polls = 0u64;
            let cap = 16 * (self.held.len() as u64 + 4) * (w.groups_bound.get() + 1) + w.cap_total.get() + self.up_remaining() as u64 * 4 + 64;
            let mut spin = 0u64;
            loop {
                polls += 1;
                if polls > cap {
                    w.violation("C13", "drain_does_not_finish", format!("honest executor still running after {cap} polls ({})", self.desc));
                    return;
                }
                let cp_before = w.stats.child_polls.get();
                let wk = self.last_waker;
                match self.poll(wk) {
                    Last::Item => spin = 0,
                    Last::Done => break,
                    Last::Pending => {
                        if !w.task_invoked_since(wk, self.last_start) {
                            break;
                        }
                        if w.stats.child_polls.get() == cp_before {
                            spin += 1;
                            if spin > self.held.len() as u64 + w.cap_total.get() / 32 + 8 {
                                w.violation("C14", "spins_without_progress", format!("{spin} consecutive woken Pending polls without polling any child"));
                                return;
                            }
                        } else {
                            spin = 0;
                        }
                    }
                    Last::None => {}
                }
                if w.has_violation() || self.subj.is_none() {
                    return;
                }
                if self.kind.is_join() && self.join_ready_seen {
                    break;
                }
            }
            if self.kind.is_merge() {
                self.prune_ended_sources();
            }
            // sources with more gaps / adapters with more upstream: go round again
            let more = {
                let ks = w.kids.borrow();
                self.held.iter().any(|i| ks[*i as usize].state != KState::Done) && self.last != Last::Done
            } || (!self.up_ended() && self.kind.is_adapter());
            if !more || rounds > max_rounds || self.last == Last::Done {
                break;
            }
            if self.kind.is_join() && self.join_ready_seen {
                break;
            }
        }
        // W3: the executor sleeps; nobody who was notified may be left un-polled
        let stuck = {
            let ks = w.kids.borrow();
            self.held.iter().copied().find(|i| ks[*i as usize].live() && ks[*i as usize].needs_poll)
        };
        if let Some(id) = stuck {
            if self.last == Last::Pending && !(self.kind == Kind::TryJoinAll && self.join_ready_seen) {
                w.violation("C01", "W3_lost_wakeup", format!("executor sleeps but kid {id} was woken and never polled again ({})", self.desc));
            }
        }
        if self.last == Last::Pending && self.kind.is_ordered() && !w.has_violation() {
            let head_done = self.order.front().map_or(false, |i| w.kids.borrow()[*i as usize].state == KState::Done);
            if head_done {
                w.violation("C04", "head_finished_not_yielded", format!("the future at the head of the queue has finished, the executor sleeps, and its output is not yielded ({})", self.desc));
            }
        }
        if self.last == Last::Pending && !self.held.is_empty() && !self.kind.is_join() && self.subj.is_some() {
            // The honest executor sleeps with outputs still owed. Whether that is *only* a lost
            // wake-up (C01) or also a loss of the outputs themselves (C02: "yielded exactly once
            // if the collection keeps being polled") is decided by polling on regardless of
            // notifications for a while.
            let extra = 2 * self.held.len() as u64 + 4 * w.groups_bound.get() + w.cap_total.get() / 32 + 16;
            let wk = self.last_waker;
            for _ in 0..extra {
                if self.poll(wk) == Last::Done || self.held.is_empty() || self.subj.is_none() {
                    break;
                }
            }
            if !self.held.is_empty() && self.last != Last::Done && self.subj.is_some() {
                let (p, rule) = match self.kind {
                    k if k.is_merge() => ("C11", "items_never_delivered"),
                    k if k.is_adapter() => ("C10", "never_completes"),
                    _ => ("C02", "not_yielded_although_polled"),
                };
                w.violation(
                    p,
                    rule,
                    format!("everything completed and woken; {} still held after the executor slept and {extra} further unconditional polls ({})", self.held.len(), self.desc),
                );
            }
        }
        if self.last == Last::Done && self.kind.is_adapter() {
            // M-HINT offline: every recorded hint must bracket what was actually yielded afterwards
            let total = self.n_yielded + self.errs_yielded;
            for (at, lo, hi) in &self.hints {
                let r = (total - at) as usize;
                if *lo > r || hi.map_or(false, |h| h < r) {
                    w.violation("C17", "size_hint_vs_actual", format!("hint ({lo},{hi:?}) recorded when {at} items had been yielded, {r} more followed"));
                    break;
                }
            }
            if self.errs_yielded != self.errs_from_up {
                w.violation("C10", "error_lost", format!("upstream produced {} errors, {} were forwarded", self.errs_from_up, self.errs_yielded));
            }
            if self.kind == Kind::ForEach {
                let d = w.delivered.borrow().len() as u64;
                let pulled = w.up.borrow().as_ref().unwrap().pulled;
                if d != pulled {
                    w.violation("C10", "item_lost", format!("upstream produced {pulled} items, closure saw {d}"));
                }
            }
        }
    }

    /// drop the subject and the retained wakers (in the given order), then the end-of-history checks
    pub fn finish(&mut self, wakers_first: bool, exercise_orphans: bool) {
        let w = self.w.clone();
        if let Some(a) = &self.aborted {
            let _ = a;
            // state unknown after a panic: no leak / drop verdicts
            w.drop_all_wakers();
            return;
        }
        let cancelled = {
            let ks = w.kids.borrow();
            self.held.iter().any(|i| ks[*i as usize].state != KState::Done)
                || self.held.iter().any(|i| ks[*i as usize].state == KState::Done && !self.yielded.contains(i) && !ks[*i as usize].is_src)
        };
        if cancelled && self.subj.is_some() {
            self.flags.cancelled_nontrivial = true;
        }
        // M-ALLOC verdicts need the subject alive (counts are per thread, read before teardown)
        self.check_alloc();
        if wakers_first {
            self.with_ctx(Ctx::InOther, || w.drop_all_wakers());
        }
        if let Some(s) = self.subj.take() {
            w.event(ev::DROP_SUBJECT, 0, 0);
            world::beacon_phase(3);
            let r = self.with_ctx(Ctx::InOther, || {
                catch_unwind(AssertUnwindSafe(|| {
                    let _g = alloc::enter_crate();
                    drop(s)
                }))
            });
            world::beacon_phase(0);
            w.subject_dropped.set(true);
            if let Err(p) = r {
                w.violation("C06", "drop_panicked", format!("dropping the subject panicked: {}", msg_of(p)));
                return;
            }
        }
        if exercise_orphans {
            // wakers outlive the collection: invoking them must touch nothing but (maybe) the task
            let ids: Vec<u32> = {
                let ks = w.kids.borrow();
                (0..ks.len() as u32).filter(|i| !ks[*i as usize].wakers.is_empty()).collect()
            };
            let cp = w.stats.child_polls.get();
            for id in ids {
                let how = self.rng.below(3) as u8;
                let pick = self.rng.below(4);
                self.op_wake(id, how, pick);
                if self.rng.chance(1, 3) {
                    let wk = {
                        let ks = w.kids.borrow();
                        ks[id as usize].wakers.first().map(|x| w.clone_waker(x))
                    };
                    if let Some(wk) = wk {
                        w.drop_waker(wk, id);
                    }
                }
            }
            if w.stats.child_polls.get() != cp {
                w.violation("C03", "orphan_waker_polled_child", "a waker of a dropped collection caused a child poll".into());
            }
        }
        self.with_ctx(Ctx::InOther, || w.drop_all_wakers());
        // M-DROP
        {
            let ks = w.kids.borrow();
            for (i, k) in ks.iter().enumerate() {
                if k.drops != 1 && !k.plain {
                    w.violation("C06", "child_drop_count", format!("kid {i} dropped {} times by the end of the history ({})", k.drops, self.desc));
                    break;
                }
            }
        }
        {
            let os = w.objs.borrow();
            for (i, o) in os.iter().enumerate() {
                if o.drops != 1 {
                    w.violation(
                        "C06",
                        "output_drop_count",
                        format!("object {i} ({:?}, produced by kid {}) dropped {} times by the end of the history ({})", o.kind, o.producer as i32, o.drops, self.desc),
                    );
                    break;
                }
            }
        }
        // M-BLOCK
        let live = w.live_blocks();
        if live != 0 {
            w.violation("C03", "block_leaked", format!("{live} waker blocks still allocated after the collection and all wakers are gone"));
        }
        if w.stats.blocks_alloc.get() != w.stats.blocks_release.get() {
            w.violation(
                "C03",
                "alloc_release_mismatch",
                format!("{} blocks allocated, {} released", w.stats.blocks_alloc.get(), w.stats.blocks_release.get()),
            );
        }
        // M-COUNT totals
        let s = &w.stats;
        let credits = self.n_accepted + s.wakes_live.get() + s.wakes_stale.get() + s.items_yielded_by_src.get();
        if s.child_polls.get() > credits {
            w.violation("C12", "total_polls_exceed_notifications", format!("{} child polls > {} pushes+wakes+items", s.child_polls.get(), credits));
        }
    }

    pub fn check_alloc(&mut self) {
        if self.subj.is_none() {
            return;
        }
        let w = &self.w;
        let n = alloc::in_crate_allocs() - self.alloc_base;
        let bounded = match self.kind {
            Kind::Fub | Kind::MergeB | Kind::BufU | Kind::TryBufU | Kind::JoinAll | Kind::TryJoinAll => true,
            Kind::ForEach => self.cap > 0,
            _ => false,
        };
        if bounded {
            if n != 0 {
                w.violation("C18", "bounded_allocated", format!("{}: {n} heap allocations inside the crate after construction", self.desc));
            }
        } else if self.kind.is_unbounded() {
            let g = w.groups_bound.get();
            let mut bound = 3 * g + 6;
            if self.kind == Kind::Fo {
                bound += (usize::BITS - self.peak.max(1).leading_zeros()) as u64 + 4;
            }
            if n > bound {
                w.violation(
                    "C18",
                    "unbounded_alloc_growth",
                    format!("{}: {n} allocations inside the crate for peak population {} (bound {bound}), processed {}", self.desc, self.peak, self.flags.processed),
                );
            }
        }
    }
}

pub fn prop_tag(prop: u8) -> &'static str {
    const TAGS: [&str; 19] = ["", "C01", "C02", "C03", "C04", "C05", "C06", "C07", "C08", "C09", "C10", "C11", "C12", "C13", "C14", "C15", "C16", "C17", "C18"];
    TAGS.get(prop as usize).copied().unwrap_or("")
}

fn ctor_name(c: &Ctor) -> &'static str {
    match c {
        Ctor::New => "new",
        Ctor::WithCap => "with_capacity",
        Ctor::FromIter => "from_iter",
    }
}

// ---------------------------------------------------------------------- the random driver

fn kinds_for(prop: u8) -> &'static [Kind] {
    use Kind::*;
    match prop {
        2 => &[Fub, Fu, Fob, Fo],
        4 => &[Fob, Fo, BufO, TryBufO, JoinAll, TryJoinAll, Fob, Fo],
        7 => &[JoinAll, TryJoinAll],
        9 | 10 => &[BufU, BufO, TryBufU, TryBufO, ForEach],
        11 => &[MergeB, MergeU],
        12 => &[Fub, Fu, Fob, Fo, MergeB, MergeU, BufU, ForEach],
        15 => &[Fub, Fu, Fob, Fo, MergeB, MergeU],
        16 => &[BufO, TryBufO],
        17 => &[Fub, Fu, Fob, Fo, MergeB, MergeU, BufU, BufO, TryBufU, TryBufO, BufU, BufO, TryBufU, TryBufO],
        3 => &[Fub, Fu, Fob, Fo, MergeB, MergeU, Fub, Fu, BufU, JoinAll],
        _ => &crate::subject::ALL_KINDS,
    }
}

pub fn pick_cap(r: &mut Rng, small: bool, min: usize) -> usize {
    loop {
        let c = if small {
            *r.pick(&[0usize, 1, 1, 2, 2, 3, 4, 5])
        } else if r.chance(3, 4) {
            *r.pick(&[0usize, 1, 1, 2, 2, 3, 3, 4, 4, 7, 8])
        } else {
            *r.pick(&CAPS)
        };
        if c >= min {
            return c;
        }
    }
}

pub fn pick_start(r: &mut Rng) -> Option<usize> {
    const MSB: usize = 1 << (usize::BITS - 1);
    match r.below(10) {
        0..=2 => None,
        3 => Some(r.below(3)),
        4 | 5 => Some(MSB - 2 + r.below(5)),
        6 | 7 => Some(usize::MAX - r.below(3)),
        8 => Some(MSB - 1 - r.below(40)),
        _ => Some(r.next() as usize),
    }
}

fn up_script(r: &mut Rng, is_try: bool, small: bool) -> Vec<UpStep> {
    if !small && r.chance(1, 10) {
        // a long burst of ready items (more than the per-poll budget of the inner set)
        let n = r.range(62, 420);
        let mut v = vec![UpStep::Item; n];
        if r.chance(1, 2) {
            v.insert(r.below(n), UpStep::Gap);
        }
        v.push(UpStep::End);
        return v;
    }
    let n = if small { r.range(0, 8) } else { r.range(0, 40) };
    let mut v = Vec::new();
    for _ in 0..n {
        let x = r.weighted(&[65, 25, if is_try { 10 } else { 0 }]);
        v.push(match x {
            0 => UpStep::Item,
            1 => UpStep::Gap,
            _ => UpStep::Err,
        });
    }
    v.push(UpStep::End);
    v
}

/// Run one random history; for the C15 profile a history that contained refused / panicking pushes
/// is run a second time without them (same seed, same random draws) and must be
/// indistinguishable: "a refusal leaves the held futures undisturbed".
pub fn run_history(p: &Params, hist_index: u64) -> HistResult {
    let mut r = run_history_once(p, hist_index);
    if p.prop == 15 && !p.suppress_refused && r.flags.refused > 0 && matches!(r.kind, Kind::Fub | Kind::Fob | Kind::MergeB) && r.inconclusive.is_none() {
        let mut q = p.clone();
        q.suppress_refused = true;
        q.trace = false;
        let t = run_history_once(&q, hist_index);
        let same = t.hash == r.hash && t.violations.len() == r.violations.len();
        if !same && t.violations.is_empty() {
            r.violations.push(Violation {
                prop: "C15",
                rule: "refused_push_left_a_trace",
                detail: format!(
                    "{}: the same history without its {} refused/panicking pushes behaves differently (yield/observation hash {:016x} vs {:016x}; violations with refusals: {:?})",
                    r.desc,
                    r.flags.refused,
                    r.hash,
                    t.hash,
                    r.violations.iter().map(|v| format!("{}/{}", v.prop, v.rule)).collect::<Vec<_>>()
                ),
                clock: 0,
            });
        }
    }
    r
}

fn run_history_once(p: &Params, hist_index: u64) -> HistResult {
    let seed = mix(p.seed, hist_index);
    let mut h = Hist::new(seed, p.trace);
    h.suppress_refused = p.suppress_refused;
    let w = h.w.clone();
    w.armed.set(prop_tag(p.prop));
    // fresh memory is filled with 0xA5 so that a never-written element is deterministically invalid
    alloc::set_poison(!p.no_poison);
    let kinds = kinds_for(p.prop);
    let kind = p.kind.unwrap_or_else(|| *h.rng.pick(kinds));
    let small = p.small;
    // children (C07, C06) and outputs (C06) of the join combinators may panic
    let coll = matches!(kind, Kind::Fub | Kind::Fu | Kind::Fob | Kind::Fo);
    h.allow_panics = !p.no_panics
        && match p.prop {
            6 | 7 => kind.is_join(),
            5 | 8 => kind.is_join() || coll,
            12 => coll,
            2 | 4 => coll,
            15 => kind == Kind::Fub,
            _ => false,
        }
        && h.rng.chance(1, if matches!(p.prop, 5 | 6 | 7) { 3 } else { 6 });
    if h.allow_panics && matches!(p.prop, 2 | 4) {
        // only `poll`s panic here: the crate is then never in the middle of its own
        // bookkeeping, and the rules about finished outputs stay in force
        w.poll_panics_only.set(true);
    } else if h.allow_panics && h.rng.chance(1, 2) {
        w.panic_outputs.set(true);
    }
    w.panic_leaks_ok.set(kind != Kind::JoinAll);
    // ---- construct
    let min_cap = if kind.is_adapter() && kind != Kind::ForEach { 1 } else { 0 };
    let mut cap = pick_cap(&mut h.rng, small, min_cap);
    if kind.is_adapter() && cap > 64 {
        cap = h.rng.range(1, 64);
    }
    if kind == Kind::ForEach && p.prop != 10 && p.prop != 15 && cap == 0 && h.rng.chance(3, 4) {
        cap = h.rng.range(1, 8);
    }
    let start = if kind.is_ordered() && (p.prop == 4 || h.rng.chance(1, 3)) { pick_start(&mut h.rng) } else { None };
    let (ctor, n_init) = match kind {
        Kind::JoinAll | Kind::TryJoinAll => (Ctor::FromIter, if small { h.rng.range(0, 6) } else { *h.rng.pick(&[0usize, 1, 2, 3, 4, 5, 8, 13, 40, 64, 70, 128]) }),
        Kind::MergeB => (Ctor::FromIter, if cap > 40 && h.rng.chance(1, 2) { h.rng.range(0, 8) } else { cap.min(if small { 5 } else { 300 }) }),
        Kind::Fub | Kind::Fob => {
            if h.rng.chance(1, 6) {
                (Ctor::FromIter, cap.min(if small { 5 } else { 300 }))
            } else {
                (Ctor::New, 0)
            }
        }
        Kind::Fu | Kind::Fo | Kind::MergeU => match h.rng.below(6) {
            0 => (Ctor::FromIter, if small { h.rng.range(0, 5) } else { *h.rng.pick(&[0usize, 1, 3, 33, 40, 70, 97, 100, 130, 226]) }),
            1 | 2 if kind != Kind::MergeU => {
                cap = *h.rng.pick(&[0usize, 1, 1, 2, 3, 4]);
                (Ctor::WithCap, 0)
            }
            _ => (Ctor::New, 0),
        },
        _ => (Ctor::New, 0),
    };
    if kind.is_adapter() {
        let script = up_script(&mut h.rng, kind.is_try(), small);
        if script.len() > 60 && h.rng.chance(1, 2) {
            // a long burst deserves a large limit now and then (beyond 128 and 256)
            cap = *h.rng.pick(&[1usize, 2, 8, 33, 64, 129, 130, 200, 257]);
        }
        h.flags.up_gaps = script.iter().filter(|s| **s == UpStep::Gap).count() as u32;
        let hint_mode = h.rng.below(5) as u8;
        let ready = if script.len() > 60 { *h.rng.pick(&[100u8, 100, 50, 0]) } else { *h.rng.pick(&[0u8, 20, 50, 100]) };
        let fail = if kind.is_try() { *h.rng.pick(&[0u8, 10, 30]) } else { 0 };
        w.install_upstream(script, hint_mode, ready, fail, 15);
        if p.prop == 6 && !p.no_panics && h.rng.chance(1, 8) {
            // the upstream stream's destructor panics when the adapter drops it at its end
            let obj = w.up.borrow().as_ref().unwrap().obj;
            w.ident_panics.set(Some(obj));
            w.panic_leaks_ok.set(true);
        }
    }
    if kind == Kind::JoinAll && !h.allow_panics && h.rng.chance(1, 4) {
        // inputs without drop glue (plain data): the combinator must still drop their outputs
        w.plain_join.set(true);
    } else if kind == Kind::JoinAll && !h.allow_panics && h.rng.chance(1, 6) {
        // inputs with a zero-sized output: nothing to poison, but the length must be exact
        w.unit_join.set(true);
    }
    if p.prop == 6 && !p.no_panics && n_init >= 2 && matches!(ctor, Ctor::FromIter) && !kind.is_adapter() && h.rng.chance(1, 8) {
        // the input iterator panics after it has handed over at least one future
        let at = h.rng.range(1, n_init - 1);
        w.iter_panic_at.set(Some(at));
        h.iter_panics = true;
    }
    let ok = h.construct(kind, ctor, cap, n_init, start);
    let max_ops = p.max_ops.max(5);
    let n_ops = h.rng.range(5, max_ops);
    let early_drop = h.rng.chance(if matches!(p.prop, 3 | 6) { 1 } else { 1 }, if matches!(p.prop, 3 | 6) { 2 } else { 5 });
    if ok {
        for i in 0..n_ops {
            if w.has_violation() || h.subj.is_none() || p.cut.map_or(false, |c| i >= c) {
                break;
            }
            h.ops += 1;
            step(&mut h, p);
        }
        if !w.has_violation() {
            if !early_drop {
                h.drain();
            }
            if !w.has_violation() {
                let wf = h.rng.chance(1, 2);
                let orphans = early_drop || h.rng.chance(1, 2);
                h.finish(wf, orphans);
            }
        } else if matches!(p.prop, 3 | 6) && h.subj.is_some() && h.aborted.is_none() && w.only_behavioural_violations() {
            // a behavioural rule of another property ended the history (the reference model is
            // out of step), but the teardown verdicts of C03 / C06 need no model: whatever was
            // created must be dropped exactly once, every block released, once the subject and
            // all wakers are gone
            h.flags.teardown_after_foreign_violation = true;
            let wf = h.rng.chance(1, 2);
            h.finish(wf, false);
        }
    }
    finish_result(h)
}

impl HistResult {
    /// the last boundary events, rendered
    pub fn tail(&self) -> Vec<String> {
        self.raw_tail.iter().map(|e| format!("{} {} {} {}", e.clock, world::ev_name(e.code), e.a as i64, e.b)).collect()
    }
}

pub fn finish_result(mut h: Hist) -> HistResult {
    let w = h.w.clone();
    // never leave anything alive that calls back into a world that is gone
    if let Some(s) = h.subj.take() {
        world::beacon_phase(3);
        let _ = catch_unwind(AssertUnwindSafe(|| drop(s)));
        world::beacon_phase(0);
    }
    w.drop_all_wakers();
    alloc::set_poison(false);
    h.flags.slot_reuse = w.stats.slot_reuse.get() as u32;
    h.flags.continuation_polls = h.continuation_polls;
    let violations = w.viol.borrow().clone();
    let raw_tail: Vec<world::Ev> = w.ring.borrow().clone();
    world::install(None);
    HistResult {
        kind: h.kind,
        cap: h.cap,
        ops: h.ops,
        hash: h.hash,
        flags: h.flags.clone(),
        violations,
        raw_tail,
        inconclusive: h.aborted.clone(),
        stats: w,
        desc: h.desc.clone(),
    }
}

fn step(h: &mut Hist, p: &Params) {
    let kind = h.kind;
    let big = !p.small;
    // weights: poll, push, complete, wake live, wake stale, bulk push, wake all, complete all,
    //          relocate, quiet, open upstream gap
    let mut ws: [u32; 11] = [30, 14, 16, 10, 6, 0, 1, 1, 2, 1, 0];
    if kind.is_adapter() {
        ws[1] = 0;
        ws[10] = 10;
    }
    if kind.is_join() {
        ws[1] = 0;
    }
    if big && (kind.is_collection() || kind.is_merge()) {
        ws[5] = 1;
    }
    if p.prop == 8 {
        ws[8] = 10;
    }
    if p.prop == 14 {
        ws[9] = 5;
    }
    if p.prop == 15 {
        ws[1] = 30;
    }
    if matches!(p.prop, 5 | 12 | 3) {
        ws[4] = 14;
        ws[3] = 14;
    }
    match h.rng.weighted(&ws) {
        0 => {
            let wk = if h.rng.chance(7, 10) { h.last_waker } else { h.rng.below(3) };
            h.poll(wk);
        }
        1 if matches!(kind, Kind::Fo | Kind::Fob) && h.rng.chance(1, 8) => {
            let n = h.rng.range(1, 6);
            h.op_extend(n);
        }
        1 => {
            let how = match kind {
                Kind::Fob => *h.rng.pick(&[How::Back, How::Front, How::TryBack, How::TryFront, How::TryBack]),
                Kind::Fo => *h.rng.pick(&[How::Back, How::Back, How::Front]),
                Kind::Fub | Kind::MergeB => {
                    // the panicking push on a full collection is exercised, but rarely
                    if h.rng.chance(1, 8) {
                        How::Back
                    } else {
                        How::TryBack
                    }
                }
                _ => How::Back,
            };
            h.op_push(how);
        }
        2 => {
            if let Some(id) = h.pick_held(|k| k.state != KState::Done && !(k.ready && !k.is_src)) {
                let wake = h.rng.chance(4, 5);
                h.op_complete(id, wake);
            }
        }
        3 => {
            if let Some(id) = h.pick_held(|k| k.live() && !k.wakers.is_empty()) {
                let how = h.rng.weighted(&[50, 15, 20, 15]) as u8;
                let pick = h.rng.below(8);
                h.op_wake(id, how, pick);
            }
        }
        4 => {
            if let Some(id) = h.pick_finished_with_waker() {
                let how = h.rng.weighted(&[50, 15, 20, 15]) as u8;
                let pick = h.rng.below(8);
                h.op_wake(id, how, pick);
            }
        }
        5 if matches!(kind, Kind::Fo | Kind::Fob) && h.rng.chance(1, 2) => {
            let n = h.rng.range(1, 80);
            h.op_extend(n);
        }
        5 => {
            let n = h.rng.range(1, 150);
            for _ in 0..n {
                if !h.model_accepts() || h.subj.is_none() || h.w.has_violation() {
                    break;
                }
                let how = if kind == Kind::Fob || kind == Kind::Fo { *h.rng.pick(&[How::Back, How::Back, How::Front]) } else { How::Back };
                h.op_push(how);
            }
        }
        6 => {
            let ids: Vec<u32> = {
                let ks = h.w.kids.borrow();
                (0..ks.len() as u32).filter(|i| !ks[*i as usize].wakers.is_empty()).collect()
            };
            for id in ids {
                h.op_wake(id, 0, 0);
                if h.w.has_violation() {
                    break;
                }
            }
        }
        7 => {
            let ids = h.held.clone();
            for id in ids {
                let wake = h.rng.chance(9, 10);
                let done = h.w.kids.borrow()[id as usize].state == KState::Done;
                if !done {
                    h.op_complete(id, wake);
                }
            }
        }
        8 => h.op_relocate(),
        9 => h.op_quiet(),
        _ => {
            let wake = h.rng.chance(4, 5);
            if h.w.up_open_gap(wake) {
                h.h(0xE1);
            }
        }
    }
}

// ---------------------------------------------------------------------- non-triviality rules

pub fn rule_text(prop: u8) -> &'static str {
    match prop {
        1 => "history contains >=1 invocation of a live child's waker while the last poll result was Pending and >=1 Pending return with >=1 held child",
        2 => "history contains >=1 slot reuse and >=1 completion out of push order (unbounded subjects additionally >=1 group created or removed)",
        3 => "history contains >=1 waker invoked after its child finished and >=1 waker-vtable call after the collection handle was dropped",
        4 => "history contains >=1 completion out of queue order and (>=1 push_front after the first poll, or a re-base of the position counters, or a join of >=2 inputs)",
        5 => "history contains >=1 stale waker invoked after its child finished",
        6 => "owner dropped while >=1 child unfinished or >=1 output produced but not handed out",
        7 => "join of >=2 inputs not all ready at the first poll; try_join_all additionally >=1 Err and >=1 continuation poll",
        8 => ">=1 move of the collection value between two polls while children are held, or group creation/removal while a polled child is held",
        9 => "limit reached >=1 time and >=1 refill after a completion",
        10 => "upstream with >=1 Pending gap that ended while >=1 future was in flight (for_each_concurrent(0): the upstream was pulled at all)",
        11 => ">=2 sources with interleaved items and >=1 source pushed after the first item was yielded",
        12 => ">=1 redundant wake (same slot woken twice between two polls) and >=1 stale wake of a vacant or reused slot",
        13 => "directed: busy population present and victim woken / budget exhausted >=1 time; random: >=1 live wake while pending and a later poll",
        14 => ">=1 quiet phase entered with >=1 held child",
        15 => ">=1 refused push and >=1 refill after a completion, or a capacity-0 constructor call",
        16 => "head of line unfinished while later futures finished (out-of-order completion with the limit reached)",
        17 => "adapters: >=1 hint sampled after upstream ended with futures in flight; collections: >=1 refill after a yield",
        18 => "bounded: >=3*cap children processed after construction; unbounded: >=2 fill/drain cycles or >=1 group created with >=10 processed",
        _ => "",
    }
}

pub fn nontrivial(prop: u8, r: &HistResult) -> bool {
    let f = &r.flags;
    let k = r.kind;
    match prop {
        1 => f.live_wake_while_pending >= 1 && f.pending_with_held >= 1,
        2 => f.slot_reuse >= 1 && f.out_of_order_completion >= 1 && (!k.is_unbounded() || f.groups_created + f.groups_removed >= 1),
        3 => f.stale_wakes >= 1 && f.orphan_vtable_calls >= 1,
        4 => f.out_of_order_completion >= 1 && (f.push_front_after_poll >= 1 || f.rebase_crossed >= 1) || (k.is_join() && r.cap >= 2 && f.pending_with_held >= 1),
        5 => f.stale_wakes >= 1,
        6 => f.cancelled_nontrivial,
        7 => k.is_join() && r.cap >= 2 && f.pending_with_held >= 1 && (k == Kind::JoinAll || (f.join_nontrivial && f.continuation_polls >= 1)),
        8 => f.relocations_between_polls >= 1 || (f.groups_created + f.groups_removed >= 1 && f.pending_with_held >= 1),
        9 => f.limit_reached >= 1 && f.refills >= 1,
        10 => (f.up_gaps >= 1 && f.up_ended_in_flight) || (k == Kind::ForEach && r.cap == 0 && f.processed >= 1),
        11 => f.merge_interleaved && f.src_pushed_late >= 1,
        12 => f.redundant_wakes >= 1 && (f.vacant_wakes >= 1 || f.stale_wakes_after_reuse >= 1),
        13 => f.starve_rounds > 0 || f.budget_hits > 0 || (f.live_wake_while_pending >= 1 && f.pending_with_held >= 1),
        14 => f.quiet_phases >= 1,
        15 => (f.refused >= 1 && f.refills >= 1) || (r.cap == 0 && f.ctor_called),
        16 => f.hol_stall || (f.out_of_order_completion >= 1 && f.limit_reached >= 1),
        17 => f.hint_after_up_end >= 1 || (k.is_collection() && f.refills >= 1),
        18 => {
            if k.is_unbounded() {
                f.cycles >= 2 || (f.groups_created >= 1 && f.processed >= 10)
            } else {
                r.cap >= 1 && f.processed >= 3 * r.cap as u64
            }
        }
        _ => false,
    }
}
