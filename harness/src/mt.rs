//! Multi-threaded rounds: one consumer owns the collection, W waker threads clone / invoke / drop
//! the wakers the children were handed. Monitors: M-WAKE-MT (global sequence clock, final
//! lost-wake-up rule), M-BLOCK (alloc / release / vtable-entry probes), exactly-once and
//! finished-never-polled-again in the children, conservation for the merges.

use crate::prng::{fnv, Rng, FNV0};
use futures_buffered::{
    join_all, FuturesOrdered, FuturesOrderedBounded, FuturesUnordered, FuturesUnorderedBounded, JoinAll, MergeBounded, MergeUnbounded,
};
use futures_core::Stream;
use std::collections::BTreeMap;
use std::future::Future;
use std::marker::PhantomPinned;
use std::pin::Pin;
use std::sync::atomic::{AtomicBool, AtomicU32, AtomicU64, AtomicUsize, Ordering::*};
use std::sync::{Arc, Mutex};
use std::task::{Context, Poll, Wake, Waker};

pub struct MtKid {
    ready: AtomicBool,
    done: AtomicBool,
    drops: AtomicU32,
    polls: AtomicU64,
    wake_seq: AtomicU64,
    poll_seq: AtomicU64,
    /// waker invocations for this child by the harness (counted before the call)
    wakes: AtomicU64,
    addr: AtomicUsize,
    mailbox: Mutex<Vec<Waker>>,
    published: AtomicBool,
    // sources
    avail: AtomicU32,
    closed: AtomicBool,
    produced: AtomicU32,
    consumed: AtomicU32,
}

pub struct Shared {
    seq: AtomicU64,
    kids: Vec<MtKid>,
    woken: [AtomicBool; 4],
    task_inv: [AtomicU64; 4],
    viol: Mutex<Vec<(String, String, String)>>,
    wakers_done: AtomicBool,
    track_blocks: bool,
    /// raw round: the children execute no read-modify-write and no SeqCst access on their poll
    /// path (after the first poll), so that the harness adds no fence between the crate clearing a
    /// slot's queued flag and the child looking at its state - the window in which a too weak
    /// ordering in the crate loses a wake-up on real hardware
    raw: bool,
}

impl Shared {
    fn violation(&self, prop: &str, rule: &str, detail: String) {
        let mut v = self.viol.lock().unwrap();
        if v.len() < 3 && prop != "INCONCLUSIVE" {
            // flushed at once: the round may never return (e.g. a queue destructor that spins)
            use std::io::Write;
            let line = crate::json::Obj::new().str("property", prop).str("rule", rule).str("detail", &detail).str("desc", "threaded round").done();
            let _ = writeln!(std::io::stdout(), "EARLY {line}");
            let _ = std::io::stdout().flush();
        }
        if v.len() < 8 {
            v.push((prop.into(), rule.into(), detail));
        }
    }
}

struct TaskW {
    id: usize,
    sh: Arc<Shared>,
}
impl Wake for TaskW {
    fn wake(self: Arc<Self>) {
        self.wake_by_ref()
    }
    fn wake_by_ref(self: &Arc<Self>) {
        self.sh.task_inv[self.id].fetch_add(1, Relaxed);
        self.sh.woken[self.id].store(true, SeqCst);
        // a task waker may take its time (think of an executor that takes a lock to reschedule):
        // with failpoints on, linger here so that whatever the crate does right after notifying
        // overlaps with the consumer's reaction to the notification
        delay_point();
    }
}

// ---------------------------------------------------------------------- children

pub struct MtChild {
    id: usize,
    sh: Arc<Shared>,
    _pin: PhantomPinned,
}

fn publish(k: &MtKid, sh: &Shared, w: &Waker) {
    let c = mt_clone(sh, w);
    let old = {
        let mut mb = k.mailbox.lock().unwrap();
        mb.push(c);
        if mb.len() > 2 {
            Some(mb.remove(0))
        } else {
            None
        }
    };
    if let Some(o) = old {
        mt_drop(sh, o);
    }
}

fn poll_entry(sh: &Shared, id: usize, addr: usize) -> bool {
    let k = &sh.kids[id];
    k.poll_seq.store(sh.seq.fetch_add(1, SeqCst), SeqCst);
    k.polls.fetch_add(1, Relaxed);
    if k.done.load(SeqCst) || k.drops.load(SeqCst) > 0 {
        sh.violation("C05", "polled_after_finish", format!("child {id} polled again after it finished"));
        return false;
    }
    let a = k.addr.swap(addr, Relaxed);
    if a != 0 && a != addr {
        sh.violation("C08", "moved_between_polls", format!("child {id} moved from {a:#x} to {addr:#x}"));
    }
    true
}

impl Future for MtChild {
    type Output = usize;
    fn poll(self: Pin<&mut Self>, cx: &mut Context<'_>) -> Poll<usize> {
        let sh = &self.sh;
        let k = &sh.kids[self.id];
        if sh.raw {
            // loads and plain stores only
            k.polls.store(k.polls.load(Relaxed) + 1, Relaxed);
            if k.done.load(Relaxed) {
                sh.violation("C05", "polled_after_finish", format!("child {} polled again after it finished", self.id));
                return Poll::Pending;
            }
            if !k.published.load(Relaxed) {
                // first poll: hand the waker out (all wakers of a child are interchangeable)
                publish(k, sh, cx.waker());
                k.published.store(true, Relaxed);
            }
            if k.ready.load(Acquire) {
                k.done.store(true, Relaxed);
                return Poll::Ready(self.id);
            }
            return Poll::Pending;
        }
        if !poll_entry(sh, self.id, &*self as *const Self as usize) {
            return Poll::Pending;
        }
        // publish first, then look at the flag: a completion that arrives in between finds the waker
        publish(k, sh, cx.waker());
        if k.ready.load(SeqCst) {
            k.done.store(true, SeqCst);
            return Poll::Ready(self.id);
        }
        Poll::Pending
    }
}
impl Drop for MtChild {
    fn drop(&mut self) {
        let k = &self.sh.kids[self.id];
        if k.drops.fetch_add(1, SeqCst) > 0 {
            self.sh.violation("C06", "double_drop", format!("child {} dropped twice", self.id));
        }
        let a = k.addr.load(Relaxed);
        if a != 0 && a != self as *const Self as usize {
            self.sh.violation("C08", "moved_before_drop", format!("child {} moved before drop", self.id));
        }
    }
}

/// bit of `avail` that says the source has been closed
const SRC_CLOSED: u32 = 1 << 31;

pub struct MtSrc {
    id: usize,
    sh: Arc<Shared>,
}
impl Stream for MtSrc {
    type Item = (usize, u32);
    fn poll_next(self: Pin<&mut Self>, cx: &mut Context<'_>) -> Poll<Option<(usize, u32)>> {
        let sh = &self.sh;
        let k = &sh.kids[self.id];
        if !poll_entry(sh, self.id, 0) {
            return Poll::Pending;
        }
        publish(k, sh, cx.waker());
        // single consumer: only this poll decrements `avail`
        // one word holds the number of available items and the "closed" bit, so that "closed and
        // nothing left" is decided by a single load and nothing can be produced afterwards
        let a = k.avail.load(SeqCst);
        if a & !SRC_CLOSED > 0 {
            k.avail.fetch_sub(1, SeqCst);
            let s = k.consumed.fetch_add(1, SeqCst);
            return Poll::Ready(Some((self.id, s)));
        }
        if a & SRC_CLOSED != 0 {
            k.done.store(true, SeqCst);
            return Poll::Ready(None);
        }
        Poll::Pending
    }
}
impl Drop for MtSrc {
    fn drop(&mut self) {
        if self.sh.kids[self.id].drops.fetch_add(1, SeqCst) > 0 {
            self.sh.violation("C06", "double_drop", format!("source {} dropped twice", self.id));
        }
    }
}

// ---------------------------------------------------------------------- M-BLOCK (threads)

struct Block {
    size: usize,
    live: bool,
    shadow: i64,
}
#[derive(Default)]
struct BlockMon {
    blocks: BTreeMap<usize, Block>,
    allocs: u64,
    releases: u64,
    vtable: u64,
    viol: Vec<(String, String)>,
    release_by_thread: BTreeMap<u64, u64>,
}
static BLOCKS: Mutex<Option<BlockMon>> = Mutex::new(None);
static POINTS: [AtomicU64; 8] = [const { AtomicU64::new(0) }; 8];
static FP_PERMILLE: AtomicU32 = AtomicU32::new(0);
/// stall watchdog of the threaded driver: a progress counter and the number of crate calls of each
/// kind that are in flight (0 poll, 1 drop of the collection, 2 waker call)
pub static PROGRESS: AtomicU64 = AtomicU64::new(0);
pub static INFLIGHT: [AtomicU32; 3] = [const { AtomicU32::new(0) }; 3];
struct InFlight(usize);
impl InFlight {
    fn new(k: usize) -> InFlight {
        INFLIGHT[k].fetch_add(1, Relaxed);
        InFlight(k)
    }
}
impl Drop for InFlight {
    fn drop(&mut self) {
        INFLIGHT[self.0].fetch_sub(1, Relaxed);
        PROGRESS.fetch_add(1, Relaxed);
    }
}

thread_local! {
    static TRNG: std::cell::RefCell<Rng> = std::cell::RefCell::new(Rng::new(0x7157));
    static TID: std::cell::Cell<u64> = const { std::cell::Cell::new(0) };
}

fn delay_point() {
    let pm = FP_PERMILLE.load(Relaxed);
    if pm == 0 {
        return;
    }
    let (hit, spins) = TRNG.with(|r| {
        let mut r = r.borrow_mut();
        (r.below(1000) < pm as usize * 4, r.below(400))
    });
    if hit {
        if spins % 3 == 0 || cfg!(miri) {
            std::thread::yield_now();
        } else {
            for _ in 0..spins {
                std::hint::spin_loop();
            }
        }
    }
}

/// probe that only serves the failpoints: no monitor state, no lock, no memory ordering of its own
pub fn fp_only_probe(p: &futures_buffered::verif::Probe) {
    if let futures_buffered::verif::Probe::Point(i) = *p {
        POINTS[i as usize & 7].fetch_add(1, Relaxed);
        if i < 4 {
            delay_point();
        }
    }
}

fn block_of(m: &mut BlockMon, p: usize) -> Option<&mut Block> {
    m.blocks.range_mut(..=p).next_back().filter(|(b, blk)| p < **b + blk.size).map(|(_, b)| b)
}

pub fn mt_probe(p: &futures_buffered::verif::Probe) {
    use futures_buffered::verif::Probe;
    match *p {
        Probe::Point(i) => {
            POINTS[i as usize & 7].fetch_add(1, Relaxed);
            let pm = FP_PERMILLE.load(Relaxed);
            if pm > 0 && i < 4 {
                // failpoint: widen the window between two atomic steps of the lock-free protocol
                let (hit, spins) = TRNG.with(|r| {
                    let mut r = r.borrow_mut();
                    (r.below(1000) < pm as usize, r.below(200))
                });
                if hit {
                    if spins % 3 == 0 {
                        std::thread::yield_now();
                    } else {
                        for _ in 0..spins {
                            std::hint::spin_loop();
                        }
                    }
                }
            }
        }
        Probe::BlockAlloc { base, size, .. } => {
            let mut g = BLOCKS.lock().unwrap();
            if let Some(m) = g.as_mut() {
                m.allocs += 1;
                let stale: Vec<usize> = m.blocks.range(base..base + size).filter(|(_, b)| !b.live).map(|(k, _)| *k).collect();
                for k in stale {
                    m.blocks.remove(&k);
                }
                if let Some((pb, ps, live)) = m.blocks.range(..base).next_back().map(|(k, b)| (*k, b.size, b.live)) {
                    if pb + ps > base && !live {
                        m.blocks.remove(&pb);
                    }
                }
                m.blocks.insert(base, Block { size, live: true, shadow: 0 });
            }
        }
        Probe::BlockRelease { base } => {
            let mut g = BLOCKS.lock().unwrap();
            if let Some(m) = g.as_mut() {
                m.releases += 1;
                let tid = TID.with(|t| t.get());
                *m.release_by_thread.entry(tid).or_insert(0) += 1;
                match m.blocks.get_mut(&base) {
                    Some(b) if b.live => {
                        b.live = false;
                        if b.shadow > 0 {
                            let s = b.shadow;
                            m.viol.push(("released_while_referenced".into(), format!("block {base:#x} released while the harness holds {s} waker clones into it")));
                        }
                    }
                    Some(_) => m.viol.push(("double_release".into(), format!("block {base:#x} released twice"))),
                    None => m.viol.push(("release_unknown".into(), format!("block {base:#x} released, never allocated"))),
                }
            }
        }
        Probe::WakerFn { slot, .. } => {
            let mut g = BLOCKS.lock().unwrap();
            if let Some(m) = g.as_mut() {
                m.vtable += 1;
                let ok = block_of(m, slot).map_or(false, |b| b.live);
                if !ok && m.viol.len() < 8 {
                    m.viol.push(("vtable_after_release".into(), format!("waker vtable entered with slot {slot:#x} outside every live block")));
                }
            }
        }
    }
}

fn mt_clone(sh: &Shared, w: &Waker) -> Waker {
    let c = w.clone();
    if sh.track_blocks {
        let mut g = BLOCKS.lock().unwrap();
        if let Some(m) = g.as_mut() {
            if let Some(b) = block_of(m, c.data() as usize) {
                b.shadow += 1;
            }
        }
    }
    c
}
fn shadow_dec(sh: &Shared, w: &Waker) {
    if sh.track_blocks {
        let mut g = BLOCKS.lock().unwrap();
        if let Some(m) = g.as_mut() {
            if let Some(b) = block_of(m, w.data() as usize) {
                b.shadow -= 1;
            }
        }
    }
}
fn mt_drop(sh: &Shared, w: Waker) {
    shadow_dec(sh, &w);
    let _f = InFlight::new(2);
    drop(w);
}
fn mt_wake(sh: &Shared, w: Waker) {
    shadow_dec(sh, &w);
    let _f = InFlight::new(2);
    w.wake();
}

// ---------------------------------------------------------------------- subjects

pub enum MtSubject {
    Fub(FuturesUnorderedBounded<MtChild>),
    Fu(FuturesUnordered<MtChild>),
    Fob(FuturesOrderedBounded<MtChild>),
    Fo(FuturesOrdered<MtChild>),
    Join(JoinAll<MtChild>),
    MergeB(MergeBounded<MtSrc>),
    MergeU(MergeUnbounded<MtSrc>),
}

pub enum Out {
    Pending,
    Kid(usize),
    Item(usize, u32),
    All(Vec<usize>),
    Done,
}

impl MtSubject {
    fn poll(&mut self, cx: &mut Context<'_>) -> Out {
        fn m(p: Poll<Option<usize>>) -> Out {
            match p {
                Poll::Pending => Out::Pending,
                Poll::Ready(Some(i)) => Out::Kid(i),
                Poll::Ready(None) => Out::Done,
            }
        }
        fn ms(p: Poll<Option<(usize, u32)>>) -> Out {
            match p {
                Poll::Pending => Out::Pending,
                Poll::Ready(Some((i, s))) => Out::Item(i, s),
                Poll::Ready(None) => Out::Done,
            }
        }
        match self {
            MtSubject::Fub(s) => m(Pin::new(s).poll_next(cx)),
            MtSubject::Fu(s) => m(Pin::new(s).poll_next(cx)),
            MtSubject::Fob(s) => m(Pin::new(s).poll_next(cx)),
            MtSubject::Fo(s) => m(Pin::new(s).poll_next(cx)),
            MtSubject::Join(s) => match Pin::new(s).poll(cx) {
                Poll::Pending => Out::Pending,
                Poll::Ready(v) => Out::All(v),
            },
            MtSubject::MergeB(s) => ms(Pin::new(s).poll_next(cx)),
            MtSubject::MergeU(s) => ms(Pin::new(s).poll_next(cx)),
        }
    }
    fn is_merge(&self) -> bool {
        matches!(self, MtSubject::MergeB(_) | MtSubject::MergeU(_))
    }
}

pub const MT_KINDS: [&str; 7] = ["fub", "fu", "fob", "fo", "join", "mergeb", "mergeu"];

fn build(kind: &str, n: usize, sh: &Arc<Shared>, rng: &mut Rng) -> MtSubject {
    let child = |i: usize| MtChild { id: i, sh: sh.clone(), _pin: PhantomPinned };
    let src = |i: usize| MtSrc { id: i, sh: sh.clone() };
    match kind {
        "fub" => {
            if rng.chance(1, 3) {
                MtSubject::Fub((0..n).map(child).collect())
            } else {
                let mut s = FuturesUnorderedBounded::new(n + rng.below(3));
                for i in 0..n {
                    s.push(child(i));
                }
                MtSubject::Fub(s)
            }
        }
        "fu" => {
            let mut s = match rng.below(3) {
                0 => FuturesUnordered::new(),
                _ => FuturesUnordered::with_capacity(rng.range(1, 3)),
            };
            for i in 0..n {
                s.push(child(i));
            }
            MtSubject::Fu(s)
        }
        "fob" => {
            let mut s = FuturesOrderedBounded::new(n);
            for i in 0..n {
                if rng.chance(1, 4) {
                    s.push_front(child(i))
                } else {
                    s.push_back(child(i))
                }
            }
            MtSubject::Fob(s)
        }
        "fo" => {
            let mut s = FuturesOrdered::with_capacity(rng.range(1, 3));
            for i in 0..n {
                s.push_back(child(i));
            }
            MtSubject::Fo(s)
        }
        "join" => MtSubject::Join(join_all((0..n).map(child))),
        "mergeb" => MtSubject::MergeB((0..n).map(src).collect()),
        _ => {
            let mut s = MergeUnbounded::new();
            for i in 0..n {
                s.push(src(i));
            }
            MtSubject::MergeU(s)
        }
    }
}

// ---------------------------------------------------------------------- one round

#[derive(Default)]
pub struct RoundStats {
    pub polls: u64,
    pub waker_calls: u64,
    pub overlapping_wakes: u64,
    pub orphan_calls: u64,
    pub sig: u64,
    pub spurious_polls: u64,
    pub task_switches: u64,
    pub items: u64,
    pub cancelled: bool,
}

pub struct RoundCfg {
    pub kind: String,
    pub n: usize,
    pub threads: usize,
    pub calls: usize,
    pub track_blocks: bool,
    pub migrate: bool,
    /// drop the collection after this many polls, while the waker threads are still at work
    pub cancel_after: Option<u64>,
    pub raw: bool,
}

fn spin_or_yield(i: &mut u32) {
    *i += 1;
    if *i % 16 == 0 || cfg!(miri) {
        std::thread::yield_now();
    } else {
        std::hint::spin_loop();
    }
}

/// Runs one round; returns the violations found (property, rule, detail) and statistics.
pub fn round(cfg: &RoundCfg, seed: u64) -> (Vec<(String, String, String)>, RoundStats) {
    let mut rng = Rng::new(seed);
    let mut st = RoundStats::default();
    let n = cfg.n;
    let sh = Arc::new(Shared {
        seq: AtomicU64::new(1),
        kids: (0..n)
            .map(|_| MtKid {
                ready: AtomicBool::new(false),
                done: AtomicBool::new(false),
                drops: AtomicU32::new(0),
                polls: AtomicU64::new(0),
                wake_seq: AtomicU64::new(0),
                poll_seq: AtomicU64::new(0),
                wakes: AtomicU64::new(0),
                addr: AtomicUsize::new(0),
                mailbox: Mutex::new(Vec::new()),
                published: AtomicBool::new(false),
                avail: AtomicU32::new(0),
                closed: AtomicBool::new(false),
                produced: AtomicU32::new(0),
                consumed: AtomicU32::new(0),
            })
            .collect(),
        woken: [const { AtomicBool::new(false) }; 4],
        task_inv: [const { AtomicU64::new(0) }; 4],
        viol: Mutex::new(Vec::new()),
        wakers_done: AtomicBool::new(false),
        track_blocks: cfg.track_blocks,
        raw: cfg.raw,
    });
    let subj = build(&cfg.kind, n, &sh, &mut rng);
    let is_merge = subj.is_merge();
    let is_join = matches!(subj, MtSubject::Join(_));
    let tasks: Vec<Waker> = (0..3).map(|i| Waker::from(Arc::new(TaskW { id: i, sh: sh.clone() }))).collect();
    let polls_in_flight = Arc::new(AtomicU64::new(0));

    // ---- waker threads
    let mut handles = Vec::new();
    for t in 0..cfg.threads {
        let sh = sh.clone();
        let tseed = seed ^ (t as u64 + 1).wrapping_mul(0x9E37_79B9_7F4A_7C15);
        let calls = cfg.calls;
        let pif = polls_in_flight.clone();
        handles.push(std::thread::spawn(move || {
            TID.with(|x| x.set(t as u64 + 1));
            TRNG.with(|r| *r.borrow_mut() = Rng::new(tseed ^ 0xfa11));
            let mut r = Rng::new(tseed);
            let mut done = 0usize;
            let mut overlap = 0u64;
            let mut idle = 0u32;
            while done < calls {
                let c = r.below(sh.kids.len());
                let k = &sh.kids[c];
                // take one clone out of the mailbox; from here on no harness lock is touched
                // until the burst is over (only the clone/drop shadow counter in monitor runs)
                let wk = {
                    let mb = k.mailbox.lock().unwrap();
                    mb.last().map(|w| mt_clone(&sh, w))
                };
                let Some(wk) = wk else {
                    spin_or_yield(&mut idle);
                    done += 1;
                    continue;
                };
                if r.chance(1, 4) {
                    // completion: publish the state, then wake (a completion is never silent)
                    k.ready.store(true, Release);
                    k.wake_seq.fetch_max(sh.seq.fetch_add(1, SeqCst), SeqCst);
                    k.wakes.fetch_add(1, Relaxed);
                    wk.wake_by_ref();
                }
                if r.chance(1, 2) {
                    // merges: make an item available (or close the source)
                    if r.chance(1, 6) {
                        k.avail.fetch_or(SRC_CLOSED, SeqCst);
                        k.closed.store(true, SeqCst);
                    } else {
                        // (check and increment in one step: another waker thread may close the
                        // source at any moment, and a closed source produces nothing more)
                        let mut a = k.avail.load(SeqCst);
                        while a & SRC_CLOSED == 0 {
                            match k.avail.compare_exchange(a, a + 1, SeqCst, SeqCst) {
                                Ok(_) => {
                                    k.produced.fetch_add(1, SeqCst);
                                    break;
                                }
                                Err(cur) => a = cur,
                            }
                        }
                    }
                }
                let burst = r.range(1, if cfg!(miri) { 4 } else { 24 });
                let mut extra: Vec<Waker> = Vec::new();
                for _ in 0..burst {
                    done += 1;
                    if pif.load(Relaxed) & 1 == 1 {
                        overlap += 1;
                    }
                    match r.below(8) {
                        0..=3 => {
                            k.wake_seq.fetch_max(sh.seq.fetch_add(1, SeqCst), SeqCst);
                            k.wakes.fetch_add(1, Relaxed);
                            wk.wake_by_ref();
                        }
                        4 => extra.push(mt_clone(&sh, &wk)),
                        5 => {
                            if let Some(w) = extra.pop() {
                                mt_drop(&sh, w)
                            }
                        }
                        6 => {
                            let c2 = mt_clone(&sh, &wk);
                            k.wake_seq.fetch_max(sh.seq.fetch_add(1, SeqCst), SeqCst);
                            k.wakes.fetch_add(1, Relaxed);
                            mt_wake(&sh, c2);
                        }
                        _ => {
                            if r.chance(1, 3) {
                                std::thread::yield_now();
                            }
                        }
                    }
                }
                for w in extra {
                    mt_drop(&sh, w);
                }
                mt_drop(&sh, wk);
            }
            overlap
        }));
    }

    // ---- consumer: honest executor with occasional spurious polls
    let cancel_after = cfg.cancel_after;
    let consumer = move |mut subj: MtSubject, sh: Arc<Shared>, tasks: Vec<Waker>, mut rng: Rng, handles: Vec<std::thread::JoinHandle<u64>>| {
        let mut st = RoundStats::default();
        let mut sig = FNV0;
        let mut k = 0usize;
        let mut finished = false;
        let mut seen = vec![false; sh.kids.len()];
        let mut next_seq = vec![0u32; sh.kids.len()];
        let mut handles = Some(handles);
        let mut phase_b = false;
        let mut pendings_after_done = 0u64;
        let mut idle = 0u32;
        let mut guard = 0u64;
        'outer: loop {
            guard += 1;
            if guard > 2_000_000 {
                sh.violation("INCONCLUSIVE", "round_watchdog", "round did not finish within its logical step cap".into());
                break;
            }
            if cancel_after.map_or(false, |c| st.polls >= c) && handles.is_some() {
                // cancellation: the caller drops the collection right now, waker threads still running
                st.sig = sig;
                return (subj, st, false, seen, next_seq, handles);
            }
            if rng.chance(1, 5) {
                let nk = rng.below(3);
                if nk != k {
                    st.task_switches += 1;
                }
                k = nk;
            }
            sh.woken[k].store(false, SeqCst);
            let mut cx = Context::from_waker(&tasks[k]);
            // poll until Pending
            loop {
                polls_in_flight.fetch_add(1, Relaxed);
                let r = {
                    let _f = InFlight::new(0);
                    subj.poll(&mut cx)
                };
                polls_in_flight.fetch_add(1, Relaxed);
                st.polls += 1;
                match r {
                    Out::Pending => {
                        fnv(&mut sig, 0xfff0);
                        if !phase_b && handles.as_ref().map_or(true, |h| h.iter().all(|h| h.is_finished())) {
                            // every waker thread is done: what is queued is finite, so the task
                            // must fall asleep after a few more polls (M-IDLE)
                            pendings_after_done += 1;
                            if pendings_after_done > 64 + 2 * sh.kids.len() as u64 {
                                sh.violation("C14", "spins_after_wakers_done", format!("{pendings_after_done} Pending polls, each with the task woken, after the last child-waker call had returned"));
                                break 'outer;
                            }
                        }
                        break;
                    }
                    Out::Kid(i) => {
                        fnv(&mut sig, i as u64);
                        if i >= seen.len() || seen[i] {
                            sh.violation("C02", "yielded_twice", format!("child {i} yielded twice / unknown"));
                        } else {
                            seen[i] = true;
                            if !sh.kids[i].done.load(SeqCst) {
                                sh.violation("C02", "output_not_produced", format!("child {i} yielded but never returned Ready"));
                            }
                            if sh.kids[i].drops.load(SeqCst) != 1 {
                                sh.violation("C05", "not_released_promptly", format!("child {i} yielded but not dropped"));
                            }
                        }
                        st.items += 1;
                    }
                    Out::Item(i, s) => {
                        fnv(&mut sig, (i as u64) << 20 | s as u64);
                        if s != next_seq[i] {
                            sh.violation("C11", "per_source_order", format!("source {i}: item {s}, expected {}", next_seq[i]));
                        }
                        next_seq[i] = s + 1;
                        st.items += 1;
                    }
                    Out::All(v) => {
                        fnv(&mut sig, 0xa11);
                        if v.len() != sh.kids.len() || v.iter().enumerate().any(|(i, x)| *x != i) {
                            sh.violation("C04", "index_map", format!("join_all returned {v:?}"));
                        }
                        finished = true;
                        break 'outer;
                    }
                    Out::Done => {
                        finished = true;
                        break 'outer;
                    }
                }
            }
            // sleep until the most recent task waker is invoked. A spurious poll (legal for any
            // executor) is decided once per sleep, not per spin: frequent spurious polls would
            // pick up an entry whose notification was lost and hide the very thing we look for
            let mut spurious_after = if !phase_b && rng.chance(1, 24) { rng.range(1, 400) as i64 } else { -1 };
            loop {
                if sh.woken[k].load(SeqCst) {
                    break;
                }
                if spurious_after == 0 && !sh.wakers_done.load(SeqCst) && handles.is_some() {
                    st.spurious_polls += 1;
                    break;
                }
                spurious_after -= 1;
                let all_joined = handles.as_ref().map_or(true, |h| h.iter().all(|h| h.is_finished()));
                if all_joined {
                    if let Some(hs) = handles.take() {
                        for h in hs {
                            st.overlapping_wakes += h.join().unwrap_or(0);
                        }
                        sh.wakers_done.store(true, SeqCst);
                        // every notify call has returned: look again before concluding
                        continue;
                    }
                    if sh.woken[k].load(SeqCst) {
                        break;
                    }
                    if !phase_b {
                        // quiescent: the executor sleeps and nobody will ever wake it.
                        // M-WAKE-MT final rule
                        for (i, kid) in sh.kids.iter().enumerate() {
                            let held = kid.drops.load(SeqCst) == 0 && !kid.done.load(SeqCst);
                            // state-based rule (needs no instrumentation in the child): the
                            // completion was published before the waker was invoked, so a poll
                            // caused by that wake must have seen it
                            if held && !is_merge && kid.ready.load(SeqCst) {
                                sh.violation(
                                    "C01",
                                    "lost_wakeup",
                                    format!("child {i} was completed and then woken on another thread, is still held and unfinished, and the task sleeps with its most recent waker ({k}) not invoked"),
                                );
                            }
                            let ws = kid.wake_seq.load(SeqCst);
                            let ps = kid.poll_seq.load(SeqCst);
                            if held && !sh.raw && ws != 0 && ws > ps {
                                sh.violation(
                                    "C01",
                                    "lost_wakeup",
                                    format!("child {i}: waker invoked at seq {ws}, last polled at seq {ps}, task asleep and its most recent waker ({k}) not invoked"),
                                );
                            }
                        }
                        // two idle polls (an executor may poll spuriously): nothing is queued, so
                        // nothing may be polled - unless an entry sits in the ready queue twice
                        if !finished {
                            for _ in 0..2 {
                                sh.woken[k].store(false, SeqCst);
                                let r = {
                                    let _f = InFlight::new(0);
                                    subj.poll(&mut cx)
                                };
                                st.polls += 1;
                                if matches!(r, Out::Pending) && sh.woken[k].load(SeqCst) {
                                    // every waker thread is done and the executor had gone to
                                    // sleep: nobody invoked a child waker, yet the collection woke
                                    // its task (M-IDLE)
                                    sh.violation("C14", "idle_collection_woke_its_task", format!("idle poll with task waker {k}: nothing was woken since the executor went to sleep, yet the poll returned Pending with its task waker invoked"));
                                }
                                match r {
                                    Out::Pending => {}
                                    Out::Done | Out::All(_) => {
                                        finished = true;
                                        break;
                                    }
                                    Out::Kid(i) => {
                                        if i < seen.len() {
                                            seen[i] = true;
                                        }
                                    }
                                    Out::Item(i, s) => next_seq[i] = s + 1,
                                }
                            }
                            if finished {
                                break 'outer;
                            }
                        }
                        // M-COUNT totals: a child is polled at most once for its push and once per
                        // waker invocation (merge sources: plus once per item they yielded)
                        for (i, kid) in sh.kids.iter().enumerate() {
                            let polls = kid.polls.load(SeqCst);
                            let credit = 1 + kid.wakes.load(SeqCst) + kid.consumed.load(SeqCst) as u64;
                            if polls > credit {
                                sh.violation("C12", "total_polls_exceed_notifications", format!("child {i}: {polls} polls for 1 push + {} waker invocations + {} items", kid.wakes.load(SeqCst), kid.consumed.load(SeqCst)));
                            }
                        }
                        // phase B: complete everything, wake everything: the stream must end
                        phase_b = true;
                        for kid in sh.kids.iter() {
                            kid.ready.store(true, SeqCst);
                            kid.avail.fetch_or(SRC_CLOSED, SeqCst);
                            kid.closed.store(true, SeqCst);
                            let wk = kid.mailbox.lock().unwrap().last().map(|w| mt_clone(&sh, w));
                            if let Some(wk) = wk {
                                kid.wake_seq.fetch_max(sh.seq.fetch_add(1, SeqCst), SeqCst);
                                kid.wakes.fetch_add(1, Relaxed);
                                mt_wake(&sh, wk);
                            }
                        }
                        if !sh.woken[k].load(SeqCst) {
                            let unpolled = sh.kids.iter().any(|kid| kid.drops.load(SeqCst) == 0 && kid.polls.load(SeqCst) > 0);
                            if unpolled {
                                sh.violation("C01", "lost_wakeup", "all held children completed and woken, most recent task waker not invoked".into());
                                break 'outer;
                            }
                        }
                        continue;
                    } else {
                        sh.violation("C01", "lost_wakeup", "phase B: everything completed and woken, executor asleep, stream not finished".into());
                        break 'outer;
                    }
                }
                spin_or_yield(&mut idle);
            }
        }
        if let Some(hs) = handles.take() {
            for h in hs {
                st.overlapping_wakes += h.join().unwrap_or(0);
            }
        }
        st.sig = sig;
        (subj, st, finished, seen, next_seq, None)
    };
    let (subj, cst, finished, seen, _next_seq, running) = if cfg.migrate {
        // the collections are Send: construct here, consume on another thread, drop here
        let (sh2, t2) = (sh.clone(), tasks.clone());
        std::thread::spawn(move || consumer(subj, sh2, t2, Rng::new(seed ^ 0xc0), handles)).join().expect("consumer thread")
    } else {
        consumer(subj, sh.clone(), tasks.clone(), Rng::new(seed ^ 0xc0), handles)
    };
    st.polls = cst.polls;
    st.sig = cst.sig;
    st.spurious_polls = cst.spurious_polls;
    st.task_switches = cst.task_switches;
    st.items = cst.items;
    st.overlapping_wakes = cst.overlapping_wakes;
    st.waker_calls = (cfg.threads * cfg.calls) as u64;

    if finished && !is_merge && !is_join {
        for (i, s) in seen.iter().enumerate() {
            if !*s {
                sh.violation("C02", "lost_output", format!("stream ended but child {i} was never yielded"));
            }
        }
    }
    if finished && is_merge {
        for (i, k) in sh.kids.iter().enumerate() {
            if k.consumed.load(SeqCst) != k.produced.load(SeqCst) {
                sh.violation("C11", "items_lost", format!("source {i}: produced {}, merged {}", k.produced.load(SeqCst), k.consumed.load(SeqCst)));
            }
        }
    }

    let mut subj = Some(subj);
    if let Some(hs) = running {
        // cancelled mid-flight: the collection goes while wakers are being invoked elsewhere
        {
            let _f = InFlight::new(1);
            drop(subj.take());
        }
        for h in hs {
            st.overlapping_wakes += h.join().unwrap_or(0);
        }
        st.cancelled = true;
    }
    // ---- death order: collection first / wakers first / concurrently
    let leftovers: Vec<Waker> = sh.kids.iter().flat_map(|k| std::mem::take(&mut *k.mailbox.lock().unwrap())).collect();
    let order = rng.below(3);
    // every left-over waker is used a few times and then either dropped or consumed by a
    // by-value `wake()` (which gives up its reference *and* touches the block)
    let use_and_drop = |sh: &Shared, ws: Vec<Waker>, r: &mut Rng| -> u64 {
        let mut calls = 0;
        for w in ws {
            for _ in 0..r.below(3) {
                calls += 1;
                match r.below(3) {
                    0 => w.wake_by_ref(),
                    1 => {
                        let c = mt_clone(sh, &w);
                        mt_drop(sh, c);
                    }
                    _ => {
                        let c = mt_clone(sh, &w);
                        mt_wake(sh, c);
                    }
                }
            }
            if r.chance(1, 2) {
                calls += 1;
                mt_wake(sh, w);
            } else {
                mt_drop(sh, w);
            }
        }
        calls
    };
    match order {
        0 => {
            {
                let _f = InFlight::new(1);
                drop(subj.take());
            }
            st.orphan_calls += use_and_drop(&sh, leftovers, &mut rng);
        }
        1 => {
            use_and_drop(&sh, leftovers, &mut rng);
            let _f = InFlight::new(1);
            drop(subj.take());
        }
        _ => {
            // concurrently: the collection dies on this thread while the last wakers are used and
            // given up on another one; both sides start together
            let keep = if leftovers.is_empty() { 0 } else { rng.below(leftovers.len().min(3) + 1) };
            let mut l = leftovers;
            let other = l.split_off(keep);
            let sh2 = sh.clone();
            let mut r2 = Rng::new(seed ^ 0xdead);
            let go = Arc::new(AtomicBool::new(false));
            let go2 = go.clone();
            let h = std::thread::spawn(move || {
                TID.with(|x| x.set(99));
                let mut other = other;
                // everything but the last waker first; then tell the owner, so that the end of
                // the collection and the end of the last waker overlap
                let last = other.pop();
                let mut calls = use_and_drop_owned(&sh2, other, &mut r2);
                go2.store(true, SeqCst);
                for _ in 0..r2.below(60) {
                    std::hint::spin_loop();
                }
                if let Some(w) = last {
                    calls += use_and_drop_owned(&sh2, vec![w], &mut r2);
                }
                calls
            });
            st.orphan_calls += use_and_drop(&sh, l, &mut rng);
            let mut i = 0;
            while !go.load(SeqCst) {
                spin_or_yield(&mut i);
            }
            for _ in 0..rng.below(60) {
                std::hint::spin_loop();
            }
            {
                let _f = InFlight::new(1);
                drop(subj.take());
            }
            st.orphan_calls += h.join().unwrap_or(0);
        }
    }
    drop(tasks);
    for (i, k) in sh.kids.iter().enumerate() {
        if k.drops.load(SeqCst) != 1 {
            sh.violation("C06", "child_drop_count", format!("child {i} dropped {} times by the end of the round", k.drops.load(SeqCst)));
        }
    }
    let v = sh.viol.lock().unwrap().clone();
    (v, st)
}

fn use_and_drop_owned(sh: &Shared, ws: Vec<Waker>, r: &mut Rng) -> u64 {
    let mut calls = 0;
    for w in ws {
        calls += 1;
        match r.below(4) {
            0 => {
                w.wake_by_ref();
                mt_drop(sh, w);
            }
            1 => mt_drop(sh, w),
            _ => mt_wake(sh, w),
        }
    }
    calls
}

pub fn blocks_begin() {
    *BLOCKS.lock().unwrap() = Some(BlockMon::default());
}
/// end-of-round check of the block monitor; returns violations and (allocs, releases, vtable calls, releases by waker threads)
pub fn blocks_end() -> (Vec<(String, String)>, u64, u64, u64, u64) {
    let m = BLOCKS.lock().unwrap().take().unwrap_or_default();
    let mut v = m.viol.clone();
    let live = m.blocks.values().filter(|b| b.live).count();
    if live > 0 {
        v.push(("block_leaked".into(), format!("{live} waker blocks still allocated after the collection and every waker are gone")));
    }
    if m.allocs != m.releases {
        v.push(("alloc_release_mismatch".into(), format!("{} blocks allocated, {} released", m.allocs, m.releases)));
    }
    let by_wakers: u64 = m.release_by_thread.iter().filter(|(t, _)| **t != 0).map(|(_, c)| *c).sum();
    (v, m.allocs, m.releases, m.vtable, by_wakers)
}
pub fn set_failpoints(permille: u32) {
    FP_PERMILLE.store(permille, Relaxed);
}
pub fn points() -> [u64; 8] {
    let mut o = [0; 8];
    for i in 0..8 {
        o[i] = POINTS[i].load(Relaxed);
    }
    o
}

// ---------------------------------------------------------------------- ping-pong (C01, hardware reordering)

/// A tight two-party loop with an *uninstrumented* child: a persistent waker thread publishes a
/// value and invokes the child's waker, twice per round with a short varying pause in between,
/// so that the second wake lands while the consumer is busy with the first one. When the waker
/// thread is done and the collection has been polled until idle, the child must have seen the
/// last value. Between the crate clearing the slot's queued flag and the child reading its state
/// the harness executes no read-modify-write and no fence, so a store-to-load reordering that the
/// crate's own orderings permit (x86 has exactly this one) shows up as a lost wake-up.
pub struct PingStats {
    pub rounds: u64,
    pub polls: u64,
    pub lost: Vec<String>,
}

/// own cache line, so that the harness's variables do not serialise the two threads
#[repr(align(128))]
struct Padded<T>(T);

struct PingShared {
    state: Padded<AtomicU64>,
    seen: Padded<AtomicU64>,
    go: Padded<AtomicU64>,
    done: Padded<AtomicU64>,
    notified: Padded<AtomicU64>,
    waker: std::sync::OnceLock<Waker>,
    stop: AtomicBool,
}
struct PingTask(Arc<PingShared>);
impl Wake for PingTask {
    fn wake(self: Arc<Self>) {
        self.wake_by_ref()
    }
    fn wake_by_ref(self: &Arc<Self>) {
        self.0.notified.0.fetch_add(1, SeqCst);
    }
}
struct PingChild(Arc<PingShared>);
impl Future for PingChild {
    type Output = usize;
    fn poll(self: Pin<&mut Self>, cx: &mut Context<'_>) -> Poll<usize> {
        // look at the state first thing (plain acquire load) and remember what was seen
        let v = self.0.state.0.load(Acquire);
        self.0.seen.0.store(v, Relaxed);
        if self.0.waker.get().is_none() {
            let _ = self.0.waker.set(cx.waker().clone());
        }
        if self.0.stop.load(Relaxed) {
            return Poll::Ready(0);
        }
        Poll::Pending
    }
}

pub fn pingpong(seed: u64, rounds: u64, budget_ms: u64) -> PingStats {
    let mut rng = Rng::new(seed);
    let sh = Arc::new(PingShared {
        state: Padded(AtomicU64::new(0)),
        seen: Padded(AtomicU64::new(0)),
        go: Padded(AtomicU64::new(0)),
        done: Padded(AtomicU64::new(0)),
        notified: Padded(AtomicU64::new(0)),
        waker: std::sync::OnceLock::new(),
        stop: AtomicBool::new(false),
    });
    // subject: bounded of capacity 1..4, or unbounded (first group of capacity 1 or 32)
    let shape = rng.below(4);
    let eager = rng.chance(1, 2);
    let mut fub = FuturesUnorderedBounded::new(if shape == 1 { 4 } else { 1 });
    let mut fu = if shape == 3 { FuturesUnordered::new() } else { FuturesUnordered::with_capacity(1) };
    if shape >= 2 {
        fu.push(PingChild(sh.clone()));
    } else {
        fub.push(PingChild(sh.clone()));
    }
    let task = Waker::from(Arc::new(PingTask(sh.clone())));
    let mut st = PingStats { rounds: 0, polls: 0, lost: Vec::new() };
    let mut cx = Context::from_waker(&task);
    macro_rules! poll_once {
        () => {{
            st.polls += 1;
            if shape >= 2 {
                let _ = Pin::new(&mut fu).poll_next(&mut cx);
            } else {
                let _ = Pin::new(&mut fub).poll_next(&mut cx);
            }
        }};
    }
    poll_once!();
    let child_waker = sh.waker.get().expect("child polled").clone();
    let sh2 = sh.clone();
    let tseed = seed ^ 0x7777;
    let h = std::thread::spawn(move || {
        let sh = sh2;
        let mut r = Rng::new(tseed);
        let mut round = 0u64;
        loop {
            round += 1;
            let mut idle = 0u32;
            while sh.go.0.load(Acquire) < round {
                if sh.stop.load(Relaxed) {
                    return;
                }
                // on an oversubscribed machine, give the consumer a chance to run
                spin_or_yield(&mut idle);
            }
            if sh.stop.load(Relaxed) {
                return;
            }
            // event 1, wake
            sh.state.0.store(2 * round - 1, Release);
            child_waker.wake_by_ref();
            let pause = match round & 3 {
                0 => round % 64,
                1 => r.below(24) as u64,
                2 => r.below(200) as u64,
                _ => 0,
            };
            for _ in 0..pause {
                std::hint::spin_loop();
            }
            // event 2, wake
            sh.state.0.store(2 * round, Release);
            child_waker.wake_by_ref();
            sh.done.0.store(round, Release);
        }
    });
    let t0 = std::time::Instant::now();
    let mut consumed = sh.notified.0.load(Acquire);
    for round in 1..=rounds {
        if round % 64 == 0 && t0.elapsed().as_millis() as u64 > budget_ms {
            break;
        }
        st.rounds = round;
        sh.go.0.store(round, Release);
        let mut idle = 0u32;
        if eager {
            // an executor may poll at any time: poll continuously while the waker thread works
            while sh.done.0.load(Acquire) < round {
                poll_once!();
            }
        } else {
            // honest executor: one poll per notification
            while sh.done.0.load(Acquire) < round {
                let n = sh.notified.0.load(Acquire);
                if n != consumed {
                    consumed = n;
                    poll_once!();
                } else {
                    spin_or_yield(&mut idle);
                }
            }
        }
        // both wake calls have returned: every notification that is going to be delivered has
        // been delivered; poll until idle
        loop {
            let n = sh.notified.0.load(Acquire);
            if n == consumed && !eager {
                break;
            }
            consumed = n;
            poll_once!();
            if eager {
                poll_once!();
                poll_once!();
                consumed = sh.notified.0.load(Acquire);
                break;
            }
        }
        let seen = sh.seen.0.load(Relaxed);
        if seen != 2 * round {
            st.lost.push(format!(
                "round {round} ({} executor, shape {shape}): state {} was published and the child's waker invoked on another thread (the call has returned); the collection is idle and the child's last poll saw state {seen}",
                if eager { "eager" } else { "honest" },
                2 * round
            ));
            break;
        }
    }
    sh.stop.store(true, SeqCst);
    sh.go.0.store(u64::MAX, SeqCst);
    let _ = h.join();
    drop(fub);
    drop(fu);
    st
}
