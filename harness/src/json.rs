//! Minimal JSON writer (no crates may be fetched).

pub fn esc(s: &str) -> String {
    let mut o = String::with_capacity(s.len() + 2);
    o.push('"');
    for c in s.chars() {
        match c {
            '"' => o.push_str("\\\""),
            '\\' => o.push_str("\\\\"),
            '\n' => o.push_str("\\n"),
            '\t' => o.push_str("\\t"),
            c if (c as u32) < 0x20 => o.push_str(&format!("\\u{:04x}", c as u32)),
            c => o.push(c),
        }
    }
    o.push('"');
    o
}

#[derive(Default)]
pub struct Obj(Vec<String>);
impl Obj {
    pub fn new() -> Obj {
        Obj(Vec::new())
    }
    pub fn num(mut self, k: &str, v: impl std::fmt::Display) -> Obj {
        self.0.push(format!("{}:{}", esc(k), v));
        self
    }
    pub fn str(mut self, k: &str, v: &str) -> Obj {
        self.0.push(format!("{}:{}", esc(k), esc(v)));
        self
    }
    pub fn raw(mut self, k: &str, v: String) -> Obj {
        self.0.push(format!("{}:{}", esc(k), v));
        self
    }
    pub fn bool(mut self, k: &str, v: bool) -> Obj {
        self.0.push(format!("{}:{}", esc(k), v));
        self
    }
    pub fn done(self) -> String {
        format!("{{{}}}", self.0.join(","))
    }
}

pub fn arr(items: impl IntoIterator<Item = String>) -> String {
    format!("[{}]", items.into_iter().collect::<Vec<_>>().join(","))
}
pub fn str_arr<'a>(items: impl IntoIterator<Item = &'a String>) -> String {
    arr(items.into_iter().map(|s| esc(s)))
}
