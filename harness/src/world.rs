//! The scripted environment of the single-threaded drivers: every callback the crate makes lands
//! here (child poll / drop, source poll, upstream poll, task-waker vtable, token drop, probes),
//! is recorded once, and is judged by the online monitors.

use crate::alloc::{enter_crate, leave_crate};
use crate::prng::Rng;
use std::cell::{Cell, RefCell};
use std::collections::{BTreeMap, HashMap};
use std::mem::ManuallyDrop;
use std::rc::Rc;
use std::task::{Context, RawWaker, RawWakerVTable, Waker};

pub const MAGIC: u32 = 0x70C3_11ED;

#[derive(Clone, Copy, PartialEq, Eq, Debug)]
pub enum Ctx {
    Outside,
    InPoll,
    InHarnessWake,
    /// inside a harness call into the crate that is neither a poll nor a waker call
    /// (push, drop, observers, constructors)
    InOther,
}

#[derive(Clone, Copy, PartialEq, Eq, Debug)]
pub enum KState {
    Fresh,
    Pending,
    Done,
}

#[derive(Clone, Copy, PartialEq, Eq, Debug)]
pub enum SrcStep {
    Item,
    Gap,
    End,
    /// yields an item on every poll, forever
    Infinite,
}

#[derive(Clone, Copy, PartialEq, Eq, Debug)]
pub enum UpStep {
    Item,
    Gap,
    Err,
    End,
}

#[derive(Clone, Copy, PartialEq, Eq, Debug)]
pub enum ObjKind {
    Tok,
    Err,
    Up,
    Closure,
    ItemTok,
}

pub struct Obj {
    pub kind: ObjKind,
    pub drops: u8,
    pub producer: u32,
}

pub struct Kid {
    pub is_src: bool,
    pub state: KState,
    pub ready: bool,
    pub fail: bool,
    pub accepted: bool,
    pub held: bool,
    pub accepted_call: u64,
    pub addr: Option<usize>,
    pub polls: u32,
    pub wakers: Vec<Waker>,
    pub hold: u8,
    pub slot_key: Option<usize>,
    pub needs_poll: bool,
    pub woken: bool,
    pub credit_push: bool,
    pub credit_item: bool,
    pub self_wake: u32,
    pub wake_other: Option<u32>,
    pub wake_in_drop: bool,
    /// wakes its own waker in the very poll in which it returns Ready
    pub wake_on_ready: bool,
    /// when pending: invoke the other child's waker *before* waking itself
    pub other_first: bool,
    /// scripted panics (C07 profile only): panic at the k-th poll / in the destructor when
    /// dropped inside a collection poll
    pub panic_in_poll: u32,
    pub panic_in_drop: bool,
    pub drops: u8,
    pub finished_call: Option<u64>,
    pub woken_call: Option<u64>,
    pub woken_bound: u64,
    pub last_call: u64,
    pub polls_in_call: u32,
    pub forced: bool,
    // sources
    pub script: Vec<SrcStep>,
    pub pos: usize,
    pub seq: u32,
    // for victims in directed scenarios
    pub victim: bool,
    /// grandchildren of a nested child (it is a join_all over them)
    pub nested: Vec<u32>,
    pub parent: Option<u32>,
    /// handed to the crate as a future type without drop glue: its drop cannot be observed
    pub plain: bool,
}

impl Kid {
    pub fn live(&self) -> bool {
        self.held && self.state != KState::Done && self.drops == 0
    }
}

#[derive(Clone, Debug)]
pub struct Violation {
    pub prop: &'static str,
    pub rule: &'static str,
    pub detail: String,
    pub clock: u64,
}

#[derive(Clone, Copy)]
pub struct Ev {
    pub clock: u64,
    pub code: u8,
    pub a: u64,
    pub b: u64,
}

pub mod ev {
    pub const POLL_START: u8 = 1; // a = task waker id
    pub const POLL_END: u8 = 2; // a = 0 pending 1 item 2 done, b = yielded id
    pub const KID_POLL: u8 = 3; // a = kid, b = 0 pending 1 ready 2 item 3 end
    pub const KID_DROP: u8 = 4; // a = kid
    pub const PUSH: u8 = 5; // a = kid, b = how | result<<8
    pub const WAKE: u8 = 6; // a = kid, b = how | live<<8
    pub const TASK_WAKE: u8 = 7; // a = task waker id, b = ctx
    pub const COMPLETE: u8 = 8; // a = kid
    pub const RELOCATE: u8 = 9;
    pub const UP_POLL: u8 = 10; // a = result 0 pending 1 item 2 err 3 end, b = created kid
    pub const OBJ_DROP: u8 = 11; // a = obj
    pub const OPEN_GAP: u8 = 12; // a = kid (or u64::MAX upstream)
    pub const DROP_SUBJECT: u8 = 13;
    pub const QUIET: u8 = 14; // a = held
    pub const CLOSURE: u8 = 15; // a = item obj, b = kid
    pub const WAKER_DROP: u8 = 16; // a = kid
    pub const BLOCK: u8 = 17; // a = 0 alloc 1 release, b = base
    pub const NOTE: u8 = 18;
}

pub fn ev_name(code: u8) -> &'static str {
    match code {
        ev::POLL_START => "poll_start",
        ev::POLL_END => "poll_end",
        ev::KID_POLL => "kid_poll",
        ev::KID_DROP => "kid_drop",
        ev::PUSH => "push",
        ev::WAKE => "wake",
        ev::TASK_WAKE => "task_wake",
        ev::COMPLETE => "complete",
        ev::RELOCATE => "relocate",
        ev::UP_POLL => "up_poll",
        ev::OBJ_DROP => "obj_drop",
        ev::OPEN_GAP => "open_gap",
        ev::DROP_SUBJECT => "drop_subject",
        ev::QUIET => "quiet",
        ev::CLOSURE => "closure",
        ev::WAKER_DROP => "waker_drop",
        ev::BLOCK => "block",
        _ => "note",
    }
}

#[derive(Default)]
pub struct Stats {
    pub polls: Cell<u64>,
    pub pendings: Cell<u64>,
    pub items: Cell<u64>,
    pub child_polls: Cell<u64>,
    pub pushes: Cell<u64>,
    pub refused: Cell<u64>,
    pub wakes_live: Cell<u64>,
    pub wakes_stale: Cell<u64>,
    pub wakes_redundant: Cell<u64>,
    pub wakes_in_poll: Cell<u64>,
    pub waker_clones: Cell<u64>,
    pub waker_drops: Cell<u64>,
    pub task_wakes: Cell<u64>,
    pub task_switches: Cell<u64>,
    pub relocations: Cell<u64>,
    pub slot_reuse: Cell<u64>,
    pub max_child_polls_in_call: Cell<u64>,
    pub points: [Cell<u64>; 8],
    pub blocks_alloc: Cell<u64>,
    pub blocks_release: Cell<u64>,
    pub vtable_calls: Cell<u64>,
    pub vtable_orphan: Cell<u64>,
    pub max_latency: Cell<u64>,
    pub items_yielded_by_src: Cell<u64>,
    pub up_polls: Cell<u64>,
    pub quiet_phases: Cell<u64>,
}

pub fn bump(c: &Cell<u64>) {
    c.set(c.get() + 1);
}
pub fn maxc(c: &Cell<u64>, v: u64) {
    if v > c.get() {
        c.set(v);
    }
}

pub struct Upstream {
    pub script: Vec<UpStep>,
    pub pos: usize,
    pub ended: bool,
    pub waker: Option<Waker>,
    pub polled_in_call: Option<u64>,
    pub pending_in_call: Option<u64>,
    pub pulled: u64,
    pub errors: u64,
    /// how honest-but-loose the size hint is: 0 exact, 1 lower slack, 2 no upper, 3 both
    pub hint_mode: u8,
    pub obj: u32,
    /// kinds of children it creates
    pub kid_ready_pct: u8,
    pub kid_fail_pct: u8,
    pub kid_selfwake_pct: u8,
}

pub struct Task {
    /// clock of the last invocation per task-waker id
    pub last_invoked: Vec<u64>,
    pub count: Vec<u64>,
    pub current: usize,
}

pub struct World {
    pub clock: Cell<u64>,
    pub call_no: Cell<u64>,
    pub ctx: Cell<Ctx>,
    pub kids: RefCell<Vec<Kid>>,
    pub objs: RefCell<Vec<Obj>>,
    pub viol: RefCell<Vec<Violation>>,
    pub ring: RefCell<Vec<Ev>>,
    pub trace: Cell<bool>,
    pub task: RefCell<Task>,
    pub slot_credit: RefCell<HashMap<usize, bool>>,
    pub slot_owner: RefCell<HashMap<usize, u32>>,
    pub finished_in_call: RefCell<Vec<u32>>,
    pub child_polls_in_call: Cell<u64>,
    pub pending_streak: Cell<u64>,
    pub streak_cap: Cell<u32>,
    pub streak_limit: Cell<u64>,
    pub up: RefCell<Option<Upstream>>,
    pub rng: RefCell<Rng>,
    pub stats: Stats,
    pub blocks: RefCell<BTreeMap<usize, (usize, bool)>>,
    pub subject_dropped: Cell<bool>,
    /// current model population (held + parked), maintained by the driver, for M-FAIR bounds
    pub model_len: Cell<usize>,
    pub groups_bound: Cell<u64>,
    pub cap_total: Cell<u64>,
    pub fair_enabled: Cell<bool>,
    /// ids of kids delivered to the for_each closure
    pub delivered: RefCell<Vec<u32>>,
    pub kid_kind_try: Cell<bool>,
    /// adapters: concurrency limit (C09) and pulled-but-not-yielded limit (C16)
    pub limit: Cell<Option<usize>>,
    pub backlog_limit: Cell<Option<usize>>,
    pub accepted_n: Cell<u64>,
    pub yielded_n: Cell<u64>,
    pub max_backlog: Cell<u64>,
    pub desc: RefCell<String>,
    /// tag of the property this worker is run for ("" = stop at the first violation of any)
    pub armed: Cell<&'static str>,
    /// a scripted child panic is unwinding right now (the driver expects it)
    pub plain_join: Cell<bool>,
    pub unit_join: Cell<bool>,
    /// size hints of the iterators given to `extend`: 0 = random per call, 1 = exact, 2 = (0, Some(n))
    pub extend_mode: Cell<u8>,
    /// scripted: the input iterator of the next constructor panics at this index
    pub iter_panic_at: Cell<Option<usize>>,
    pub iter_panic_now: Cell<Option<usize>>,
    /// the output token whose destructor panics (scripted)
    pub tok_panics: Cell<Option<u32>>,
    /// the object (upstream stream) whose destructor panics (scripted)
    pub ident_panics: Cell<Option<u32>>,
    /// scripted destructor panics that have fired (children or outputs); poll panics are counted apart
    pub drop_panics: Cell<u32>,
    /// only children's `poll` may panic in this history (never a destructor)
    pub poll_panics_only: Cell<bool>,
    /// output tokens that have reached the harness (yielded), by token id
    pub handed_out: RefCell<std::collections::HashSet<u32>>,
    /// the crate may legitimately drop outputs inside a poll (joins: error path; unit outputs)
    pub discard_rule: Cell<bool>,
    pub ordered_subject: Cell<bool>,
    pub panic_outputs: Cell<bool>,
    pub panic_leaks_ok: Cell<bool>,
    pub scripted_panic: Cell<bool>,
    /// a scripted panic has happened in this history: from then on only C07 is judged (the
    /// question is whether safe code can be handed a value nobody produced), the other
    /// properties make no promise about collections whose children panic
    pub panic_mode: Cell<bool>,
}

thread_local! {
    static WORLD: RefCell<Option<Rc<World>>> = const { RefCell::new(None) };
}
/// print every violation as soon as it is raised (worker mode)
pub static EAGER: std::sync::atomic::AtomicBool = std::sync::atomic::AtomicBool::new(false);
/// progress beacon for the hang watchdog: (history index << 8) | phase
pub static BEACON: std::sync::atomic::AtomicU64 = std::sync::atomic::AtomicU64::new(0);
pub fn beacon_get_phase() -> u8 {
    (BEACON.load(std::sync::atomic::Ordering::Relaxed) & 0xff) as u8
}
pub fn beacon_phase(phase: u8) {
    let b = BEACON.load(std::sync::atomic::Ordering::Relaxed);
    BEACON.store((b & !0xff) | phase as u64, std::sync::atomic::Ordering::Relaxed);
}

pub fn install(w: Option<Rc<World>>) {
    WORLD.with(|c| *c.borrow_mut() = w);
}
pub fn w() -> Rc<World> {
    WORLD.with(|c| c.borrow().as_ref().expect("no world installed").clone())
}
pub fn try_w() -> Option<Rc<World>> {
    WORLD.try_with(|c| c.borrow().as_ref().cloned()).ok().flatten()
}

impl World {
    pub fn new(seed: u64, trace: bool) -> Rc<World> {
        Rc::new(World {
            clock: Cell::new(1),
            call_no: Cell::new(0),
            ctx: Cell::new(Ctx::Outside),
            kids: RefCell::new(Vec::new()),
            objs: RefCell::new(Vec::new()),
            viol: RefCell::new(Vec::new()),
            ring: RefCell::new(Vec::new()),
            trace: Cell::new(trace),
            task: RefCell::new(Task { last_invoked: vec![0; 4], count: vec![0; 4], current: 0 }),
            slot_credit: RefCell::new(HashMap::new()),
            slot_owner: RefCell::new(HashMap::new()),
            finished_in_call: RefCell::new(Vec::new()),
            child_polls_in_call: Cell::new(0),
            pending_streak: Cell::new(0),
            streak_cap: Cell::new(20_000),
            streak_limit: Cell::new(4096 * 2),
            up: RefCell::new(None),
            rng: RefCell::new(Rng::new(seed ^ 0x5eed_0f_0b5e_55ed)),
            stats: Stats::default(),
            blocks: RefCell::new(BTreeMap::new()),
            subject_dropped: Cell::new(false),
            model_len: Cell::new(0),
            groups_bound: Cell::new(1),
            cap_total: Cell::new(0),
            fair_enabled: Cell::new(true),
            delivered: RefCell::new(Vec::new()),
            kid_kind_try: Cell::new(false),
            limit: Cell::new(None),
            backlog_limit: Cell::new(None),
            accepted_n: Cell::new(0),
            yielded_n: Cell::new(0),
            max_backlog: Cell::new(0),
            desc: RefCell::new(String::new()),
            armed: Cell::new(""),
            plain_join: Cell::new(false),
            unit_join: Cell::new(false),
            extend_mode: Cell::new(0),
            iter_panic_at: Cell::new(None),
            iter_panic_now: Cell::new(None),
            tok_panics: Cell::new(None),
            ident_panics: Cell::new(None),
            drop_panics: Cell::new(0),
            poll_panics_only: Cell::new(false),
            handed_out: RefCell::new(std::collections::HashSet::new()),
            discard_rule: Cell::new(false),
            ordered_subject: Cell::new(false),
            panic_outputs: Cell::new(false),
            panic_leaks_ok: Cell::new(true),
            scripted_panic: Cell::new(false),
            panic_mode: Cell::new(false),
        })
    }

    pub fn tick(&self) -> u64 {
        let c = self.clock.get();
        self.clock.set(c + 1);
        c
    }

    pub fn event(&self, code: u8, a: u64, b: u64) {
        let clock = self.tick();
        let mut r = self.ring.borrow_mut();
        if !self.trace.get() && r.len() >= 96 {
            r.drain(0..48);
        }
        r.push(Ev { clock, code, a, b });
    }

    pub fn violation(&self, prop: &'static str, rule: &'static str, detail: String) {
        const C07_SAFETY: [&str; 7] = ["element_never_produced", "garbage_item", "garbage_error", "garbage_token_dropped", "unknown_token_dropped", "corrupt_token", "value_handed_out_twice"];
        if self.panic_mode.get()
            && !(prop == "C07" && C07_SAFETY.contains(&rule))
            && !(prop == "C06" && (rule == "double_drop" || !self.panic_leaks_ok.get()))
            && !(prop == "C05" && rule == "polled_after_drop")
            && !(prop == "C08" && (rule == "moved_before_drop" || rule == "moved_between_polls"))
            && !(prop == "C12" && rule == "poll_without_notification")
            && !(prop == "C15" && (rule == "len_exceeds_capacity" || rule == "accepted_at_reported_capacity"))
            && !(self.drop_panics.get() == 0
                && ((prop == "C02" && (rule == "none_while_nonempty" || rule == "output_discarded" || rule == "yielded_twice"))
                    || (prop == "C04" && (rule == "ended_before_queue_drained" || rule == "output_discarded" || rule == "out_of_queue_order"))))
        {
            // (after a child panicked, what is judged is memory safety as safe code sees it: no
            // value nobody produced or already dropped is handed out, nothing is dropped twice,
            // no dropped future is polled - and for `join_all`, which has no
            // path on which a caught panic may lose anything, still every drop count. For
            // `try_join_all` leaks after a caught panic are tolerated: its error path gives up
            // what is left in the buffer when a destructor unwinds. Behavioural promises are off.)
            return;
        }
        let mut v = self.viol.borrow_mut();
        let armed_now = self.armed.get();
        let mine_now = v.iter().filter(|x| x.prop == armed_now).count();
        if EAGER.load(std::sync::atomic::Ordering::Relaxed) && ((prop == armed_now && mine_now < 3) || (prop != armed_now && v.len() - mine_now < 3)) {
            // flushed at once: if the crate hangs or crashes later in this history, the
            // orchestrator still learns what the monitors had already seen
            use std::io::Write;
            let line = crate::json::Obj::new().str("property", prop).str("rule", rule).str("detail", &detail).str("desc", &self.desc.borrow()).done();
            let _ = writeln!(std::io::stdout(), "EARLY {line}");
            let _ = std::io::stdout().flush();
        }
        // soft violations of other properties must not crowd out the property under test
        let armed = self.armed.get();
        let mine = v.iter().filter(|x| x.prop == armed).count();
        if (prop == armed && mine < 8) || (prop != armed && v.len() - mine < 12) {
            v.push(Violation { prop, rule, detail, clock: self.clock.get() });
        }
    }

    /// Should the history stop? Yes once the property the worker is run for is violated, or any
    /// property whose violation leaves the reference model out of step with the crate. Violations
    /// of the purely observational properties (extra polls, extra wake-ups, latency, hints,
    /// allocations) of *other* properties are recorded and the history goes on, so that they do
    /// not mask the property under test.
    pub fn has_violation(&self) -> bool {
        const SOFT: [&str; 7] = ["C01", "C04", "C12", "C13", "C14", "C17", "C18"];
        let armed = self.armed.get();
        self.viol.borrow().iter().any(|v| v.prop == armed || !SOFT.contains(&v.prop))
    }

    /// every violation so far is one of a behavioural property (counts, order, wake-ups): nothing
    /// that touches memory or ownership, nothing the harness answered by forgetting a value
    pub fn only_behavioural_violations(&self) -> bool {
        const B: [&str; 13] = ["C01", "C02", "C04", "C09", "C10", "C11", "C12", "C13", "C14", "C15", "C16", "C17", "C18"];
        let armed = self.armed.get();
        self.viol.borrow().iter().all(|v| v.prop != armed && B.contains(&v.prop) && v.rule != "poll_panicked")
    }

    // ------------------------------------------------------------------ objects

    pub fn new_obj(&self, kind: ObjKind, producer: u32) -> u32 {
        let mut o = self.objs.borrow_mut();
        o.push(Obj { kind, drops: 0, producer });
        (o.len() - 1) as u32
    }

    pub fn obj_dropped(&self, id: u32, magic: u32) {
        let _g = leave_crate();
        if magic != MAGIC {
            self.violation("C07", "garbage_token_dropped", format!("token with magic {magic:#x} id {id} dropped"));
            return;
        }
        self.event(ev::OBJ_DROP, id as u64, 0);
        let mut o = self.objs.borrow_mut();
        match o.get_mut(id as usize) {
            Some(obj) => {
                obj.drops += 1;
                if obj.drops > 1 {
                    let k = obj.kind;
                    drop(o);
                    self.violation("C06", "double_drop", format!("object {id} ({k:?}) dropped twice"));
                }
            }
            None => {
                drop(o);
                self.violation("C07", "unknown_token_dropped", format!("token id {id} was never created"));
            }
        }
    }

    // ------------------------------------------------------------------ kids

    pub fn new_kid(&self, is_src: bool) -> u32 {
        let mut k = self.kids.borrow_mut();
        k.push(Kid {
            is_src,
            state: KState::Fresh,
            ready: false,
            fail: false,
            accepted: false,
            held: false,
            accepted_call: 0,
            addr: None,
            polls: 0,
            wakers: Vec::new(),
            hold: 1,
            slot_key: None,
            needs_poll: false,
            woken: false,
            credit_push: false,
            credit_item: false,
            self_wake: 0,
            wake_other: None,
            wake_in_drop: false,
            wake_on_ready: false,
            other_first: false,
            panic_in_poll: 0,
            panic_in_drop: false,
            drops: 0,
            finished_call: None,
            woken_call: None,
            woken_bound: 0,
            last_call: u64::MAX,
            polls_in_call: 0,
            forced: false,
            script: Vec::new(),
            pos: 0,
            seq: 0,
            victim: false,
            nested: Vec::new(),
            parent: None,
            plain: false,
        });
        (k.len() - 1) as u32
    }

    /// the subject accepted the kid (push returned Ok / upstream handed it over / from_iter)
    pub fn accept(&self, id: u32) {
        let mut ks = self.kids.borrow_mut();
        let k = &mut ks[id as usize];
        k.accepted = true;
        k.held = true;
        // first collection call that begins after this acceptance
        k.accepted_call = self.call_no.get() + 1;
        k.needs_poll = true;
        k.credit_push = true;
        self.accepted_n.set(self.accepted_n.get() + 1);
        if let Some(n) = self.limit.get() {
            let unfinished = ks.iter().filter(|k| k.live()).count();
            if unfinished > n {
                drop(ks);
                self.violation("C09", "limit_exceeded", format!("{unfinished} unfinished futures alive, limit is {n}"));
            }
        }
        let backlog = self.accepted_n.get() - self.yielded_n.get();
        maxc(&self.max_backlog, backlog);
        if let Some(n) = self.backlog_limit.get() {
            if backlog > n as u64 {
                self.violation("C16", "backlog_exceeds_limit", format!("{backlog} items pulled but not yet yielded, limit is {n}"));
            }
        }
    }

    fn fair_bound(&self) -> u64 {
        let g = self.groups_bound.get();
        // population at wake time: the driver's model, or - during a poll in which an adapter has
        // just pulled new futures the driver has not seen yet - accepted minus yielded
        let h = (self.model_len.get() as u64).max(self.accepted_n.get().saturating_sub(self.yielded_n.get()));
        (g + 1) * (h + 4 + self.cap_total.get() / 32) + 8
    }

    /// Common entry of every child poll. Returns the retained-waker bookkeeping decision:
    /// `None` when a violation made the poll void.
    fn kid_poll_entry(&self, id: u32, addr: usize, cx: &Context<'_>) -> bool {
        bump(&self.stats.child_polls);
        let call = self.call_no.get();
        let key = cx.waker().data() as usize;
        let n = self.child_polls_in_call.get() + 1;
        self.child_polls_in_call.set(n);
        maxc(&self.stats.max_child_polls_in_call, n);
        if self.ctx.get() != Ctx::InPoll {
            self.violation("C12", "child_polled_outside_poll", format!("kid {id} polled in context {:?}", self.ctx.get()));
        }
        let slot_credit = self.slot_credit.borrow_mut().remove(&key).unwrap_or(false);
        {
            let mut so = self.slot_owner.borrow_mut();
            if let Some(prev) = so.insert(key, id) {
                if prev != id {
                    bump(&self.stats.slot_reuse);
                }
            }
        }
        let mut ks = self.kids.borrow_mut();
        let k = &mut ks[id as usize];
        if k.state == KState::Done || k.drops > 0 {
            let dropped = k.drops > 0;
            drop(ks);
            if dropped {
                self.violation("C05", "polled_after_drop", format!("kid {id} polled after it was dropped"));
            } else {
                self.violation("C05", "polled_after_finish", format!("kid {id} polled again after it finished"));
            }
            return false;
        }
        match k.addr {
            None => k.addr = Some(addr),
            Some(a) if a != addr => {
                let m = format!("kid {id} first polled at {a:#x}, now at {addr:#x}");
                k.addr = Some(addr);
                drop(ks);
                self.violation("C08", "moved_between_polls", m);
                return self.kid_poll_entry_tail(id, call, key, slot_credit);
            }
            _ => {}
        }
        drop(ks);
        self.kid_poll_entry_tail(id, call, key, slot_credit)
    }

    fn kid_poll_entry_tail(&self, id: u32, call: u64, key: usize, slot_credit: bool) -> bool {
        let mut ks = self.kids.borrow_mut();
        let k = &mut ks[id as usize];
        let credit = k.credit_push || k.credit_item || slot_credit;
        k.credit_push = false;
        k.credit_item = false;
        k.slot_key = Some(key);
        k.needs_poll = false;
        k.woken = false;
        k.polls += 1;
        if k.last_call == call {
            k.polls_in_call += 1;
        } else {
            k.last_call = call;
            k.polls_in_call = 1;
        }
        let pic = k.polls_in_call;
        let lat = k.woken_call.take().map(|wc| (call.saturating_sub(wc), k.woken_bound));
        let victim = k.victim;
        drop(ks);
        if !credit {
            self.violation("C12", "poll_without_notification", format!("kid {id} polled without push, wake or item credit"));
        }
        if let Some((l, bound)) = lat {
            maxc(&self.stats.max_latency, l);
            if self.fair_enabled.get() && l > bound {
                self.violation(
                    "C13",
                    "latency",
                    format!("kid {id} (victim={victim}) polled {l} collection polls after its wake, bound {bound}"),
                );
            }
        }
        if pic > self.streak_cap.get() {
            let mut ks = self.kids.borrow_mut();
            let k = &mut ks[id as usize];
            if !k.forced {
                k.forced = true;
                k.ready = true;
                k.self_wake = 0;
                drop(ks);
                self.violation(
                    "C13",
                    "unbounded_work_in_one_call",
                    format!("kid {id} polled {pic} times inside one collection call"),
                );
            }
        }
        true
    }

    /// Retain `cx.waker()` per script, self-wake, wake-other. Called when the child stays pending.
    fn kid_pending_tail(&self, id: u32, cx: &Context<'_>) {
        let s = self.pending_streak.get() + 1;
        self.pending_streak.set(s);
        if s > self.streak_limit.get() {
            self.streak_limit.set(u64::MAX);
            self.violation("C13", "pending_streak", format!("{s} consecutive pending child polls inside one call"));
            // make every forever-self-waker stop so that the call can return
            for k in self.kids.borrow_mut().iter_mut() {
                if k.self_wake == u32::MAX {
                    k.self_wake = 0;
                }
            }
        }
        let clone = self.clone_waker(cx.waker());
        let (evicted, self_wake, other) = {
            let mut ks = self.kids.borrow_mut();
            let k = &mut ks[id as usize];
            k.state = KState::Pending;
            k.wakers.push(clone);
            let ev = if k.wakers.len() > k.hold as usize { Some(k.wakers.remove(0)) } else { None };
            let sw = if k.self_wake > 0 {
                if k.self_wake != u32::MAX {
                    k.self_wake -= 1;
                }
                true
            } else {
                false
            };
            (ev, sw, k.wake_other)
        };
        if let Some(wk) = evicted {
            self.drop_waker(wk, id);
        }
        let other_first = self.kids.borrow()[id as usize].other_first;
        if other_first {
            if let Some(o) = other {
                self.wake_kid(o, 0, 0);
            }
        }
        if self_wake {
            self.wake_ref(cx.waker(), id, 0);
        }
        if !other_first {
            if let Some(o) = other {
                self.wake_kid(o, 0, 0);
            }
        }
    }

    pub fn fut_poll(&self, id: u32, addr: usize, cx: &mut Context<'_>) -> Option<bool> {
        let _g = leave_crate();
        if !self.kid_poll_entry(id, addr, cx) {
            self.event(ev::KID_POLL, id as u64, 0);
            return None;
        }
        {
            let (pp, polls) = {
                let ks = self.kids.borrow();
                (ks[id as usize].panic_in_poll, ks[id as usize].polls)
            };
            if pp != 0 && polls == pp {
                self.kids.borrow_mut()[id as usize].panic_in_poll = 0;
                self.event(ev::KID_POLL, id as u64, 9);
                self.scripted_panic.set(true);
                self.panic_mode.set(true);
                panic!("scripted panic in the poll of kid {id}");
            }
        }
        let ready = self.kids.borrow()[id as usize].ready;
        if ready {
            if self.kids.borrow()[id as usize].wake_on_ready {
                // hostile but legal: wake yourself and complete in the same poll
                self.wake_ref(cx.waker(), id, 5);
            }
            {
                let mut ks = self.kids.borrow_mut();
                let k = &mut ks[id as usize];
                k.state = KState::Done;
                k.finished_call = Some(self.call_no.get());
            }
            self.finished_in_call.borrow_mut().push(id);
            self.pending_streak.set(0);
            self.event(ev::KID_POLL, id as u64, 1);
            let fail = self.kids.borrow()[id as usize].fail;
            Some(fail)
        } else {
            self.event(ev::KID_POLL, id as u64, 0);
            self.kid_pending_tail(id, cx);
            None
        }
    }

    // nested children: the same bookkeeping as `fut_poll`, split around the inner poll
    pub fn nested_poll_begin(&self, id: u32, addr: usize, cx: &Context<'_>) -> bool {
        let _g = leave_crate();
        let ok = self.kid_poll_entry(id, addr, cx);
        if !ok {
            self.event(ev::KID_POLL, id as u64, 0);
        }
        ok
    }
    pub fn nested_poll_ready(&self, id: u32) {
        {
            let mut ks = self.kids.borrow_mut();
            let k = &mut ks[id as usize];
            k.state = KState::Done;
            k.finished_call = Some(self.call_no.get());
        }
        self.finished_in_call.borrow_mut().push(id);
        self.pending_streak.set(0);
        self.event(ev::KID_POLL, id as u64, 1);
    }
    pub fn nested_poll_pending(&self, id: u32, cx: &Context<'_>) {
        self.event(ev::KID_POLL, id as u64, 0);
        self.kid_pending_tail(id, cx);
    }

    /// Source poll: `Some(Some(seq))` item, `Some(None)` end, `None` pending.
    pub fn src_poll(&self, id: u32, addr: usize, cx: &mut Context<'_>) -> Option<Option<u32>> {
        let _g = leave_crate();
        if !self.kid_poll_entry(id, addr, cx) {
            self.event(ev::KID_POLL, id as u64, 0);
            return None;
        }
        let step = {
            let ks = self.kids.borrow();
            let k = &ks[id as usize];
            k.script.get(k.pos).copied().unwrap_or(SrcStep::End)
        };
        match step {
            SrcStep::Item | SrcStep::Infinite => {
                // hostile but legal: a source that wakes itself and a sibling in the very poll
                // in which it yields an item (a demultiplexer pumping a shared wire)
                let (wself, wother) = {
                    let ks = self.kids.borrow();
                    (ks[id as usize].wake_on_ready, ks[id as usize].wake_other)
                };
                if wself {
                    self.wake_ref(cx.waker(), id, 5);
                    if let Some(o) = wother {
                        self.wake_kid(o, 0, 0);
                    }
                }
                let seq = {
                    let mut ks = self.kids.borrow_mut();
                    let k = &mut ks[id as usize];
                    if step == SrcStep::Item {
                        k.pos += 1;
                    }
                    k.seq += 1;
                    k.credit_item = true;
                    // the merge re-arms a source that yielded: from the property's point of
                    // view it must be polled again without any further wake
                    k.needs_poll = true;
                    k.woken = true;
                    k.seq - 1
                };
                bump(&self.stats.items_yielded_by_src);
                self.pending_streak.set(0);
                self.event(ev::KID_POLL, id as u64, 2);
                Some(Some(seq))
            }
            SrcStep::End => {
                {
                    let mut ks = self.kids.borrow_mut();
                    let k = &mut ks[id as usize];
                    k.state = KState::Done;
                    k.finished_call = Some(self.call_no.get());
                }
                self.finished_in_call.borrow_mut().push(id);
                self.pending_streak.set(0);
                self.event(ev::KID_POLL, id as u64, 3);
                Some(None)
            }
            SrcStep::Gap => {
                self.event(ev::KID_POLL, id as u64, 0);
                self.kid_pending_tail(id, cx);
                None
            }
        }
    }

    pub fn kid_dropped(&self, id: u32, addr: usize) {
        let _g = leave_crate();
        self.event(ev::KID_DROP, id as u64, 0);
        let (wake, bad_addr, twice) = {
            let mut ks = self.kids.borrow_mut();
            let k = &mut ks[id as usize];
            k.drops += 1;
            k.held = false;
            let bad = match k.addr {
                Some(a) if a != addr => Some(a),
                _ => None,
            };
            (k.wake_in_drop && k.drops == 1, bad, k.drops > 1)
        };
        if twice {
            self.violation("C06", "double_drop", format!("kid {id} dropped twice"));
        }
        if let Some(a) = bad_addr {
            self.violation("C08", "moved_before_drop", format!("kid {id} polled at {a:#x}, dropped at {addr:#x}"));
        }
        if wake {
            // hostile but legal: a future that wakes its own waker from its destructor
            self.wake_kid(id, 0, 0);
        }
        let pd = self.kids.borrow()[id as usize].panic_in_drop;
        if pd && self.ctx.get() == Ctx::InPoll && !std::thread::panicking() {
            self.kids.borrow_mut()[id as usize].panic_in_drop = false;
            self.drop_panics.set(self.drop_panics.get() + 1);
            self.scripted_panic.set(true);
            self.panic_mode.set(true);
            panic!("scripted panic in the destructor of kid {id}");
        }
    }

    // ------------------------------------------------------------------ waker operations
    // every crate-waker operation the harness performs goes through these helpers so that it is
    // counted, attributed, and runs with the in-crate allocation depth raised

    pub fn clone_waker(&self, wk: &Waker) -> Waker {
        bump(&self.stats.waker_clones);
        let _g = enter_crate();
        wk.clone()
    }

    pub fn drop_waker(&self, wk: Waker, owner: u32) {
        bump(&self.stats.waker_drops);
        self.event(ev::WAKER_DROP, owner as u64, 0);
        let _g = enter_crate();
        // (the last waker frees the block, which drains the ready queue: a crate call that can hang)
        let ph = beacon_get_phase();
        if ph == 0 {
            beacon_phase(4);
        }
        drop(wk);
        if ph == 0 {
            beacon_phase(0);
        }
    }

    fn note_wake(&self, key: usize, owner: u32, how: u8) {
        let call = self.call_no.get();
        let in_poll = self.ctx.get() == Ctx::InPoll;
        if in_poll {
            bump(&self.stats.wakes_in_poll);
        }
        if self.slot_credit.borrow_mut().insert(key, true) == Some(true) {
            bump(&self.stats.wakes_redundant);
        }
        let bound = self.fair_bound();
        let mut ks = self.kids.borrow_mut();
        let k = &mut ks[owner as usize];
        let live = k.live();
        if live {
            k.needs_poll = true;
            k.woken = true;
            if k.woken_call.is_none() {
                k.woken_call = Some(call);
                k.woken_bound = bound;
            }
            bump(&self.stats.wakes_live);
        } else {
            bump(&self.stats.wakes_stale);
        }
        drop(ks);
        self.event(ev::WAKE, owner as u64, how as u64 | (live as u64) << 8);
    }

    fn with_wake_ctx<R>(&self, f: impl FnOnce() -> R) -> R {
        let prev = self.ctx.get();
        if prev != Ctx::InPoll {
            // also when a child wakes its own waker from its destructor while the harness is
            // inside push / drop of the subject: still a child-waker invocation
            self.ctx.set(Ctx::InHarnessWake);
        }
        let r = {
            let _g = enter_crate();
            f()
        };
        self.ctx.set(prev);
        r
    }

    /// `wake_by_ref` on a crate waker that was handed to kid `owner`
    pub fn wake_ref(&self, wk: &Waker, owner: u32, how: u8) {
        self.note_wake(wk.data() as usize, owner, how);
        self.with_wake_ctx(|| wk.wake_by_ref());
    }

    /// `wake` (by value)
    pub fn wake_val(&self, wk: Waker, owner: u32, how: u8) {
        self.note_wake(wk.data() as usize, owner, how);
        bump(&self.stats.waker_drops);
        self.with_wake_ctx(|| wk.wake());
    }

    /// Use one retained waker of `id`. how: 0 by ref (newest), 1 by value (oldest, consumed),
    /// 2 clone-then-wake, 3 drop oldest. Returns false if the kid retains no waker.
    pub fn wake_kid(&self, id: u32, how: u8, pick: usize) -> bool {
        let (n, live) = {
            let ks = self.kids.borrow();
            (ks[id as usize].wakers.len(), ks[id as usize].live())
        };
        if n == 0 {
            return false;
        }
        // a live future never loses its newest waker (a real future keeps the waker it was last
        // polled with until it is woken); older clones and wakers of finished children may go
        let (how, n) = if live && (how == 1 || how == 3) {
            if n == 1 {
                (if how == 1 { 2 } else { 0 }, n)
            } else {
                (how, n - 1)
            }
        } else {
            (how, n)
        };
        match how {
            0 => {
                let wk = {
                    let ks = self.kids.borrow();
                    let ws = &ks[id as usize].wakers;
                    // hold a clone so that no RefCell borrow is alive during the call
                    self.clone_waker(&ws[pick % n])
                };
                self.wake_ref(&wk, id, 0);
                self.drop_waker(wk, id);
            }
            1 => {
                let wk = self.kids.borrow_mut()[id as usize].wakers.remove(pick % n);
                self.wake_val(wk, id, 1);
            }
            2 => {
                let wk = {
                    let ks = self.kids.borrow();
                    self.clone_waker(&ks[id as usize].wakers[pick % n])
                };
                self.wake_val(wk, id, 2);
            }
            _ => {
                let wk = self.kids.borrow_mut()[id as usize].wakers.remove(pick % n);
                self.drop_waker(wk, id);
            }
        }
        true
    }

    pub fn drop_all_wakers(&self) {
        let n = self.kids.borrow().len();
        for id in 0..n {
            loop {
                let wk = self.kids.borrow_mut()[id].wakers.pop();
                match wk {
                    Some(wk) => self.drop_waker(wk, id as u32),
                    None => break,
                }
            }
        }
        let upw = self.up.borrow_mut().as_mut().and_then(|u| u.waker.take());
        drop(upw);
    }

    // ------------------------------------------------------------------ task wakers

    pub fn task_waker(&self, id: usize) -> Waker {
        {
            let mut t = self.task.borrow_mut();
            while t.last_invoked.len() <= id {
                t.last_invoked.push(0);
                t.count.push(0);
            }
        }
        unsafe { Waker::from_raw(RawWaker::new((id + 1) as *const (), &TASK_VTABLE)) }
    }

    fn task_invoked(&self, id: usize) {
        let _g = leave_crate();
        bump(&self.stats.task_wakes);
        let ctx = self.ctx.get();
        self.event(ev::TASK_WAKE, id as u64, ctx as u64);
        let c = self.clock.get();
        {
            let mut t = self.task.borrow_mut();
            if id < t.last_invoked.len() {
                t.last_invoked[id] = c;
                t.count[id] += 1;
            }
        }
        if ctx != Ctx::InPoll && ctx != Ctx::InHarnessWake {
            self.violation(
                "C14",
                "task_woken_without_child_wake",
                format!("task waker {id} invoked in context {ctx:?} (not inside a poll, not inside a child-waker call)"),
            );
        }
    }

    pub fn task_invoked_since(&self, id: usize, clock: u64) -> bool {
        self.task.borrow().last_invoked.get(id).map_or(false, |c| *c >= clock)
    }

    // ------------------------------------------------------------------ probes (H2/H3)

    pub fn probe(&self, p: &futures_buffered::verif::Probe) {
        use futures_buffered::verif::Probe;
        let _g = leave_crate();
        match *p {
            Probe::BlockAlloc { base, size, .. } => {
                bump(&self.stats.blocks_alloc);
                self.event(ev::BLOCK, 0, base as u64);
                let mut b = self.blocks.borrow_mut();
                // memory of released blocks may be handed out again, at the same or at an
                // overlapping address: forget the stale records this allocation covers
                let stale: Vec<usize> = b.range(base..base + size).filter(|(_, (_, live))| !*live).map(|(k, _)| *k).collect();
                for k in stale {
                    b.remove(&k);
                }
                if let Some((pb, (ps, live))) = b.range(..base).next_back().map(|(k, v)| (*k, *v)) {
                    if pb + ps > base {
                        if live {
                            drop(b);
                            self.violation("C03", "overlapping_blocks", format!("block {base:#x} allocated inside live block {pb:#x}"));
                            return;
                        }
                        b.remove(&pb);
                    }
                }
                b.insert(base, (size, true));
            }
            Probe::BlockRelease { base } => {
                bump(&self.stats.blocks_release);
                self.event(ev::BLOCK, 1, base as u64);
                let state = self.blocks.borrow().get(&base).copied();
                match state {
                    Some((size, true)) => {
                        self.blocks.borrow_mut().insert(base, (size, false));
                        // shadow owners: wakers the harness still holds into this block
                        let mut held = 0;
                        for k in self.kids.borrow().iter() {
                            for wk in &k.wakers {
                                let d = wk.data() as usize;
                                if d >= base && d < base + size {
                                    held += 1;
                                }
                            }
                        }
                        if held > 0 {
                            self.violation(
                                "C03",
                                "released_while_referenced",
                                format!("block {base:#x} released while the harness holds {held} wakers into it"),
                            );
                        }
                    }
                    Some((_, false)) => self.violation("C03", "double_release", format!("block {base:#x} released twice")),
                    None => self.violation("C03", "release_unknown", format!("block {base:#x} released but never allocated")),
                }
            }
            Probe::WakerFn { slot, .. } => {
                bump(&self.stats.vtable_calls);
                let b = self.blocks.borrow();
                let ok = b.range(..=slot).next_back().map_or(false, |(base, (size, live))| *live && slot < base + size);
                drop(b);
                if self.subject_dropped.get() {
                    bump(&self.stats.vtable_orphan);
                }
                if !ok {
                    self.violation("C03", "vtable_after_release", format!("waker vtable entered with slot {slot:#x} outside every live block"));
                }
            }
            Probe::Point(i) => {
                if (i as usize) < self.stats.points.len() {
                    bump(&self.stats.points[i as usize]);
                }
            }
        }
    }

    pub fn live_blocks(&self) -> usize {
        self.blocks.borrow().values().filter(|(_, live)| *live).count()
    }
}

static TASK_VTABLE: RawWakerVTable = RawWakerVTable::new(
    |p| RawWaker::new(p, &TASK_VTABLE),
    |p| {
        if let Some(w) = try_w() {
            w.task_invoked(p as usize - 1)
        }
    },
    |p| {
        if let Some(w) = try_w() {
            w.task_invoked(p as usize - 1)
        }
    },
    |_| {},
);

pub fn st_probe(p: &futures_buffered::verif::Probe) {
    if let Some(w) = try_w() {
        w.probe(p);
    }
}

// ---------------------------------------------------------------------- tokens

/// Output token. The boxed canary makes a leak or a double drop of a token visible to
/// LSan / Miri / valgrind as well, independently of the drop registry.
pub struct Tok {
    pub id: u32,
    pub magic: u32,
    pub producer: u32,
    pub seq: u32,
    canary: ManuallyDrop<Box<u32>>,
}

impl Tok {
    pub fn new(kind: ObjKind, producer: u32, seq: u32) -> Tok {
        let wd = w();
        let id = wd.new_obj(kind, producer);
        if wd.panic_outputs.get() && wd.tok_panics.get().is_none() && !wd.panic_mode.get() && wd.rng.borrow_mut().chance(1, 6) {
            wd.tok_panics.set(Some(id));
        }
        Tok { id, magic: MAGIC, producer, seq, canary: ManuallyDrop::new(Box::new(id ^ MAGIC)) }
    }
    pub fn valid(&self) -> bool {
        self.magic == MAGIC
    }
}

impl Drop for Tok {
    fn drop(&mut self) {
        if self.magic == MAGIC {
            let c = **self.canary;
            unsafe { ManuallyDrop::drop(&mut self.canary) };
            // a token that is handed out again after it was dropped must not look valid
            self.magic = 0xDEAD_70C3;
            if let Some(w) = try_w() {
                if c != self.id ^ MAGIC {
                    w.violation("C07", "corrupt_token", format!("token {} canary {c:#x}", self.id));
                }
                // an output the crate drops inside a poll call although nobody has received it:
                // the collections and adapters never do that (only a destructor that unwinds
                // may cost what is in flight at that moment)
                if w.discard_rule.get()
                    && w.ctx.get() == Ctx::InPoll
                    && crate::alloc::in_crate()
                    && w.drop_panics.get() == 0
                    && !w.handed_out.borrow().contains(&self.id)
                {
                    let d = format!("output {} of kid {} was dropped inside a poll call without having been yielded ({})", self.id, self.producer, w.desc.borrow());
                    w.violation("C02", "output_discarded", d.clone());
                    if w.ordered_subject.get() {
                        w.violation("C04", "output_discarded", d);
                    }
                }
                w.obj_dropped(self.id, MAGIC);
                // scripted: the destructor of this output panics (once, only while the crate is
                // dropping it inside a poll, never during another unwind)
                if w.tok_panics.get() == Some(self.id) && w.ctx.get() == Ctx::InPoll && !std::thread::panicking() {
                    w.tok_panics.set(None);
                    w.drop_panics.set(w.drop_panics.get() + 1);
                    w.scripted_panic.set(true);
                    w.panic_mode.set(true);
                    panic!("scripted panic in the destructor of output {}", self.id);
                }
            }
        } else if let Some(w) = try_w() {
            if self.magic == 0xDEAD_70C3 {
                w.violation("C06", "double_drop", format!("output token {} dropped a second time", self.id));
            }
            w.obj_dropped(self.id, self.magic);
        }
    }
}

pub struct ErrTok(pub Tok);

/// drop-counted identity for upstreams and closures
pub struct Ident(pub u32);
impl Ident {
    pub fn new(kind: ObjKind) -> Ident {
        Ident(w().new_obj(kind, u32::MAX))
    }
}
impl Drop for Ident {
    fn drop(&mut self) {
        if let Some(w) = try_w() {
            w.obj_dropped(self.0, MAGIC);
            // scripted: the destructor of the upstream stream panics (once, only while an
            // adapter drops it inside a poll - i.e. when it has ended -, never during an unwind)
            if w.ident_panics.get() == Some(self.0) && w.ctx.get() == Ctx::InPoll && !std::thread::panicking() {
                let _g = leave_crate();
                w.ident_panics.set(None);
                w.drop_panics.set(w.drop_panics.get() + 1);
                w.scripted_panic.set(true);
                w.panic_mode.set(true);
                panic!("scripted panic in the destructor of the upstream stream");
            }
        }
    }
}
